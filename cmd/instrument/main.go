package main

// Prototype overlay instrumenter: map-order hook, MapKeys wrap, function-entry and heap-store points, go-stmt hook.
import (
	"bytes"
	"encoding/json"
	"fmt"
	"go/ast"
	"go/build"
	"go/format"
	"go/importer"
	"go/parser"
	"go/token"
	"go/types"
	"os"
	"path/filepath"
	"sort"
	"strconv"
	"strings"
)

const rtPath = "github.com/elastic/go-ucfg/verifrt"

type inst struct {
	fset  *token.FileSet
	info  *types.Info
	pkg   *types.Package
	file  *ast.File
	g     *global
	stats map[string]int
	used  bool
	cur   ast.Node // node whose position names the next site
}

// global state shared by all files: site numbering and the site table.
type global struct {
	sites int
	table []siteInfo
}

type siteInfo struct {
	ID   int    `json:"id"`
	Kind string `json:"kind"`
	Pos  string `json:"pos"`
}

// usage: instrument <repo root> <out dir> <rt source file>
// Writes instrumented copies of every non-test Go file that needs a hook, the
// injected runtime package and overlay.json + sites.json into <out dir>.
// The instrumenter is total: a package that cannot be type-checked or a
// construct it does not understand is left as it is and counted.
func main() {
	root, out, rtFile := os.Args[1], os.Args[2], os.Args[3]
	root, _ = filepath.Abs(root)
	out, _ = filepath.Abs(out)
	rtFile, _ = filepath.Abs(rtFile)
	sharedFset := token.NewFileSet()
	sharedImp := importer.ForCompiler(sharedFset, "source", nil)
	os.MkdirAll(out, 0755)
	overlay := map[string]string{}
	stats := map[string]int{}
	g := &global{}
	var subs []string
	filepath.Walk(root, func(p string, fi os.FileInfo, err error) error {
		if err != nil {
			return nil
		}
		if fi.IsDir() {
			b := fi.Name()
			if p != root && (strings.HasPrefix(b, ".") || strings.HasPrefix(b, "_") || b == "testdata" || b == "dev-tools" || b == "vendor" || b == "verifrt") {
				return filepath.SkipDir
			}
			rel, _ := filepath.Rel(root, p)
			subs = append(subs, rel)
		}
		return nil
	})
	sort.Strings(subs)
	for _, sub := range subs {
		dir := filepath.Join(root, sub)
		bp, err := build.ImportDir(dir, 0)
		if err != nil || len(bp.GoFiles) == 0 {
			continue
		}
		func() {
			defer func() {
				if r := recover(); r != nil {
					stats["uninstrumented_packages"]++
					fmt.Fprintf(os.Stderr, "instrument: package %s left uninstrumented: %v\n", sub, r)
				}
			}()
			os.Chdir(dir)
			fset := sharedFset
			var files []*ast.File
			names := append([]string{}, bp.GoFiles...)
			sort.Strings(names)
			for _, f := range names {
				af, err := parser.ParseFile(fset, filepath.Join(dir, f), nil, parser.ParseComments)
				if err != nil {
					panic(err)
				}
				files = append(files, af)
			}
			conf := types.Config{Importer: sharedImp, Error: func(error) {}}
			info := &types.Info{Types: map[ast.Expr]types.TypeAndValue{}, Defs: map[*ast.Ident]types.Object{}, Uses: map[*ast.Ident]types.Object{}}
			pkg, _ := conf.Check(bp.ImportPath, fset, files, info)
			if pkg == nil {
				panic("type check failed")
			}
			type outFile struct {
				dst string
				src []byte
			}
			var outs []outFile
			saveSites, saveTable := g.sites, len(g.table)
			ok := true
			for i, f := range files {
				in := &inst{fset: fset, info: info, pkg: pkg, file: f, stats: stats, g: g}
				in.rewriteFile(sub == ".")
				if !in.used {
					continue
				}
				addImport(f)
				var buf bytes.Buffer
				if err := format.Node(&buf, fset, f); err != nil {
					ok = false
					break
				}
				odir := filepath.Join(out, sub)
				outs = append(outs, outFile{filepath.Join(odir, names[i]), buf.Bytes()})
			}
			if !ok {
				g.sites, g.table = saveSites, g.table[:saveTable]
				panic("format failed")
			}
			for i, o := range outs {
				os.MkdirAll(filepath.Dir(o.dst), 0755)
				os.WriteFile(o.dst, o.src, 0644)
				_ = i
				overlay[filepath.Join(dir, filepath.Base(o.dst))] = o.dst
			}
		}()
	}
	rtSrc, err := os.ReadFile(rtFile)
	if err != nil {
		panic(err)
	}
	rt := filepath.Join(out, "verifrt_rt.go")
	os.WriteFile(rt, rtSrc, 0644)
	overlay[filepath.Join(root, "verifrt", "rt.go")] = rt
	js, _ := json.MarshalIndent(map[string]interface{}{"Replace": overlay}, "", " ")
	os.WriteFile(filepath.Join(out, "overlay.json"), js, 0644)
	st, _ := json.MarshalIndent(map[string]interface{}{"sites": g.table, "stats": stats}, "", " ")
	os.WriteFile(filepath.Join(out, "sites.json"), st, 0644)
	fmt.Println(stats)
}

func addImport(f *ast.File) {
	imp := &ast.GenDecl{Tok: token.IMPORT, Specs: []ast.Spec{&ast.ImportSpec{Name: ast.NewIdent("verifrt"), Path: &ast.BasicLit{Kind: token.STRING, Value: strconv.Quote(rtPath)}}}}
	f.Decls = append([]ast.Decl{imp}, f.Decls...)
}

func rtCall(name string, args ...ast.Expr) *ast.CallExpr {
	return &ast.CallExpr{Fun: &ast.SelectorExpr{X: ast.NewIdent("verifrt"), Sel: ast.NewIdent(name)}, Args: args}
}

func (in *inst) siteN(kind string, n ast.Node) int {
	in.g.sites++
	pos := ""
	if n != nil {
		p := in.fset.Position(n.Pos())
		pos = fmt.Sprintf("%s:%d", filepath.Base(filepath.Dir(p.Filename))+"/"+filepath.Base(p.Filename), p.Line)
	}
	in.g.table = append(in.g.table, siteInfo{in.g.sites, kind, pos})
	return in.g.sites
}

func (in *inst) site(kind string, n ast.Node) ast.Expr {
	return &ast.BasicLit{Kind: token.INT, Value: strconv.Itoa(in.siteN(kind, n))}
}

func (in *inst) rewriteFile(points bool) {
	for _, d := range in.file.Decls {
		fd, ok := d.(*ast.FuncDecl)
		if !ok || fd.Body == nil {
			continue
		}
		in.rewriteBlock(fd.Body, points)
		if points {
			fd.Body.List = append([]ast.Stmt{&ast.ExprStmt{X: rtCall("Point", in.site("entry", fd))}}, fd.Body.List...)
			in.stats["entry"]++
			in.used = true
		}
	}
}

// rewriteBlock rewrites statements lists recursively.
func (in *inst) rewriteBlock(b *ast.BlockStmt, points bool) {
	if b == nil {
		return
	}
	b.List = in.rewriteList(b.List, points)
}

func (in *inst) rewriteList(list []ast.Stmt, points bool) []ast.Stmt {
	var out []ast.Stmt
	for _, s := range list {
		out = append(out, in.rewriteStmt(s, points)...)
	}
	return out
}

func (in *inst) rewriteStmt(s ast.Stmt, points bool) []ast.Stmt {
	// first rewrite expressions (MapKeys, FuncLits) inside this statement, non-recursively into nested stmts handled below
	switch st := s.(type) {
	case *ast.BlockStmt:
		in.rewriteBlock(st, points)
	case *ast.IfStmt:
		in.rewriteExprsIn(st.Init, points)
		st.Cond = in.rewriteExpr(st.Cond, points)
		in.rewriteBlock(st.Body, points)
		if st.Else != nil {
			r := in.rewriteStmt(st.Else, points)
			st.Else = r[0]
		}
	case *ast.ForStmt:
		in.rewriteExprsIn(st.Init, points)
		if st.Cond != nil {
			st.Cond = in.rewriteExpr(st.Cond, points)
		}
		in.rewriteExprsIn(st.Post, points)
		in.rewriteBlock(st.Body, points)
	case *ast.RangeStmt:
		st.X = in.rewriteExpr(st.X, points)
		in.rewriteBlock(st.Body, points)
		if r := in.rewriteMapRange(st, nil); r != nil {
			return []ast.Stmt{r}
		}
		if r := in.rewriteChanRange(st); r != nil {
			return []ast.Stmt{r}
		}
	case *ast.LabeledStmt:
		if rs, ok := st.Stmt.(*ast.RangeStmt); ok {
			rs.X = in.rewriteExpr(rs.X, points)
			in.rewriteBlock(rs.Body, points)
			if r := in.rewriteMapRange(rs, st.Label); r != nil {
				return []ast.Stmt{r}
			}
			return []ast.Stmt{st}
		}
		r := in.rewriteStmt(st.Stmt, points)
		if len(r) == 1 {
			st.Stmt = r[0]
		} else { // point inserted before: keep label on a block
			st.Stmt = &ast.BlockStmt{List: r}
		}
	case *ast.SwitchStmt:
		in.rewriteExprsIn(st.Init, points)
		if st.Tag != nil {
			st.Tag = in.rewriteExpr(st.Tag, points)
		}
		for _, c := range st.Body.List {
			cc := c.(*ast.CaseClause)
			for i := range cc.List {
				cc.List[i] = in.rewriteExpr(cc.List[i], points)
			}
			cc.Body = in.rewriteList(cc.Body, points)
		}
	case *ast.TypeSwitchStmt:
		in.rewriteExprsIn(st.Init, points)
		in.rewriteExprsIn(st.Assign, points)
		for _, c := range st.Body.List {
			cc := c.(*ast.CaseClause)
			cc.Body = in.rewriteList(cc.Body, points)
		}
	case *ast.SelectStmt:
		for _, c := range st.Body.List {
			cc := c.(*ast.CommClause)
			cc.Body = in.rewriteList(cc.Body, points)
		}
		in.stats["select"]++
		in.used = true
		return []ast.Stmt{&ast.ExprStmt{X: rtCall("ChanPoint", in.site("select", s))}, s}
	case *ast.GoStmt:
		in.rewriteCall(st.Call, points)
		in.stats["go"]++
		in.used = true
		return []ast.Stmt{&ast.ExprStmt{X: rtCall("Go", in.site("go", s), &ast.FuncLit{
			Type: &ast.FuncType{Params: &ast.FieldList{}},
			Body: &ast.BlockStmt{List: []ast.Stmt{&ast.ExprStmt{X: st.Call}}},
		})}}
	case *ast.SendStmt:
		st.Value = in.rewriteExpr(st.Value, points)
		in.stats["send"]++
		in.used = true
		return []ast.Stmt{&ast.ExprStmt{X: rtCall("Send", st.Chan, st.Value)}}
	case *ast.DeferStmt:
		in.rewriteCall(st.Call, points)
	case *ast.ExprStmt:
		in.rewriteExprsIn(s, points)
		if c, ok := st.X.(*ast.CallExpr); ok {
			if id, ok := c.Fun.(*ast.Ident); ok && id.Name == "close" && len(c.Args) == 1 {
				in.stats["close"]++
				in.used = true
				return []ast.Stmt{&ast.ExprStmt{X: rtCall("ChanPoint", in.site("close", s))}, s, &ast.ExprStmt{X: rtCall("ChanDone", c.Args[0])}}
			}
		}
	default:
		in.rewriteExprsIn(s, points)
	}
	// heap-store point
	if points {
		if as, ok := s.(*ast.AssignStmt); ok && in.isHeapStore(as) {
			in.stats["store"]++
			in.used = true
			return []ast.Stmt{&ast.ExprStmt{X: rtCall("Point", in.site("store", s))}, s}
		}
		if ids, ok := s.(*ast.IncDecStmt); ok && isHeapLHS(ids.X) {
			in.stats["store"]++
			in.used = true
			return []ast.Stmt{&ast.ExprStmt{X: rtCall("Point", in.site("store", s))}, s}
		}
	}
	return []ast.Stmt{s}
}

func isHeapLHS(e ast.Expr) bool {
	switch x := e.(type) {
	case *ast.SelectorExpr, *ast.IndexExpr, *ast.StarExpr:
		_ = x
		return true
	case *ast.ParenExpr:
		return isHeapLHS(x.X)
	}
	return false
}

func (in *inst) isHeapStore(as *ast.AssignStmt) bool {
	if as.Tok == token.DEFINE {
		return false
	}
	for _, l := range as.Lhs {
		if isHeapLHS(l) {
			return true
		}
	}
	return false
}

// rewriteExprsIn rewrites expressions inside a simple statement in place.
func (in *inst) rewriteExprsIn(s ast.Stmt, points bool) {
	if s == nil {
		return
	}
	switch st := s.(type) {
	case *ast.AssignStmt:
		for i := range st.Rhs {
			st.Rhs[i] = in.rewriteExpr(st.Rhs[i], points)
		}
		for i := range st.Lhs {
			st.Lhs[i] = in.rewriteExpr(st.Lhs[i], points)
		}
	case *ast.ExprStmt:
		st.X = in.rewriteExpr(st.X, points)
	case *ast.ReturnStmt:
		for i := range st.Results {
			st.Results[i] = in.rewriteExpr(st.Results[i], points)
		}
	case *ast.DeclStmt:
		if gd, ok := st.Decl.(*ast.GenDecl); ok {
			for _, sp := range gd.Specs {
				if vs, ok := sp.(*ast.ValueSpec); ok {
					for i := range vs.Values {
						vs.Values[i] = in.rewriteExpr(vs.Values[i], points)
					}
				}
			}
		}
	case *ast.SendStmt:
		st.Value = in.rewriteExpr(st.Value, points)
	case *ast.IncDecStmt:
	}
}

func (in *inst) rewriteCall(c *ast.CallExpr, points bool) {
	c.Fun = in.rewriteExpr(c.Fun, points)
	for i := range c.Args {
		c.Args[i] = in.rewriteExpr(c.Args[i], points)
	}
}

// rewriteExpr: wrap reflect MapKeys; descend into FuncLits.
func (in *inst) rewriteExpr(e ast.Expr, points bool) ast.Expr {
	if e == nil {
		return nil
	}
	switch x := e.(type) {
	case *ast.FuncLit:
		in.rewriteBlock(x.Body, points)
		return x
	case *ast.CallExpr:
		in.rewriteCall(x, points)
		if sel, ok := x.Fun.(*ast.SelectorExpr); ok && sel.Sel.Name == "MapKeys" && len(x.Args) == 0 {
			if t := in.info.TypeOf(sel.X); t != nil && t.String() == "reflect.Value" {
				in.stats["mapkeys"]++
				in.used = true
				return rtCall("OrderRV", in.site("mapkeys", x), x)
			}
		}
		return x
	case *ast.ParenExpr:
		x.X = in.rewriteExpr(x.X, points)
	case *ast.UnaryExpr:
		x.X = in.rewriteExpr(x.X, points)
	case *ast.BinaryExpr:
		x.X = in.rewriteExpr(x.X, points)
		x.Y = in.rewriteExpr(x.Y, points)
	case *ast.SelectorExpr:
		x.X = in.rewriteExpr(x.X, points)
	case *ast.IndexExpr:
		x.X = in.rewriteExpr(x.X, points)
		x.Index = in.rewriteExpr(x.Index, points)
	case *ast.SliceExpr:
		x.X = in.rewriteExpr(x.X, points)
	case *ast.StarExpr:
		x.X = in.rewriteExpr(x.X, points)
	case *ast.TypeAssertExpr:
		x.X = in.rewriteExpr(x.X, points)
	case *ast.CompositeLit:
		for i := range x.Elts {
			x.Elts[i] = in.rewriteExpr(x.Elts[i], points)
		}
	case *ast.KeyValueExpr:
		x.Key = in.rewriteExpr(x.Key, points)
		x.Value = in.rewriteExpr(x.Value, points)
	}
	return e
}

func (in *inst) qualifier(p *types.Package) string {
	if p == in.pkg {
		return ""
	}
	for _, imp := range in.file.Imports {
		path, _ := strconv.Unquote(imp.Path.Value)
		if path == p.Path() {
			if imp.Name != nil {
				return imp.Name.Name
			}
			return p.Name()
		}
	}
	return "\x00" // not importable in this file
}

// rewriteChanRange turns `for x := range ch {B}` into a loop over verifrt.Recv.
func (in *inst) rewriteChanRange(rs *ast.RangeStmt) ast.Stmt {
	t := in.info.TypeOf(rs.X)
	if t == nil {
		return nil
	}
	ct, ok := t.Underlying().(*types.Chan)
	if !ok {
		return nil
	}
	elemT := types.TypeString(ct.Elem(), in.qualifier)
	if strings.Contains(elemT, "\x00") {
		in.stats["uninstrumented_range"]++
		return nil
	}
	elemExpr, err := parser.ParseExpr(elemT)
	if err != nil {
		return nil
	}
	in.stats["chanrange"]++
	in.used = true
	n := strconv.Itoa(in.siteN("chanrange", rs))
	vID, okID := ast.NewIdent("verifR"+n), ast.NewIdent("verifROK"+n)
	body := []ast.Stmt{
		&ast.AssignStmt{Lhs: []ast.Expr{vID, okID}, Tok: token.DEFINE, Rhs: []ast.Expr{rtCall("Recv", rs.X)}},
		&ast.IfStmt{Cond: &ast.UnaryExpr{Op: token.NOT, X: okID}, Body: &ast.BlockStmt{List: []ast.Stmt{&ast.BranchStmt{Tok: token.BREAK}}}},
		&ast.AssignStmt{Lhs: []ast.Expr{ast.NewIdent("_")}, Tok: token.ASSIGN, Rhs: []ast.Expr{vID}},
	}
	if rs.Key != nil {
		if id, ok := rs.Key.(*ast.Ident); !ok || id.Name != "_" {
			tok := rs.Tok
			body = append(body, &ast.AssignStmt{Lhs: []ast.Expr{rs.Key}, Tok: tok, Rhs: []ast.Expr{&ast.TypeAssertExpr{X: vID, Type: elemExpr}}})
			if tok == token.DEFINE {
				body = append(body, &ast.AssignStmt{Lhs: []ast.Expr{ast.NewIdent("_")}, Tok: token.ASSIGN, Rhs: []ast.Expr{rs.Key}})
			}
		}
	}
	// the original body keeps its own scope (it may legally redeclare the loop variables)
	body = append(body, &ast.BlockStmt{List: rs.Body.List})
	return &ast.ForStmt{Body: &ast.BlockStmt{List: body}}
}

// rewriteMapRange turns `for k, v := range m {B}` into a block iterating hook-ordered keys.
func (in *inst) rewriteMapRange(rs *ast.RangeStmt, label *ast.Ident) ast.Stmt {
	t := in.info.TypeOf(rs.X)
	if t == nil {
		return nil
	}
	mt, ok := t.Underlying().(*types.Map)
	if !ok {
		return nil
	}
	keyT := types.TypeString(mt.Key(), in.qualifier)
	if strings.Contains(keyT, "\x00") {
		in.stats["uninstrumented_range"]++
		return nil
	}
	keyExpr, err := parser.ParseExpr(keyT)
	if err != nil {
		in.stats["uninstrumented_range"]++
		return nil
	}
	in.stats["maprange"]++
	in.used = true
	siteID := in.siteN("maprange", rs)
	n := strconv.Itoa(siteID)
	mID, kID, okID := ast.NewIdent("verifM"+n), ast.NewIdent("verifK"+n), ast.NewIdent("verifOK"+n)
	vtmp := ast.NewIdent("verifV" + n)
	var body []ast.Stmt
	// typed key
	typedK := &ast.TypeAssertExpr{X: kID, Type: keyExpr}
	// v, ok := m[k]; if !ok {continue}
	body = append(body,
		&ast.AssignStmt{Lhs: []ast.Expr{vtmp, okID}, Tok: token.DEFINE, Rhs: []ast.Expr{&ast.IndexExpr{X: mID, Index: typedK}}},
		&ast.IfStmt{Cond: &ast.UnaryExpr{Op: token.NOT, X: okID}, Body: &ast.BlockStmt{List: []ast.Stmt{&ast.BranchStmt{Tok: token.CONTINUE}}}},
		&ast.AssignStmt{Lhs: []ast.Expr{ast.NewIdent("_")}, Tok: token.ASSIGN, Rhs: []ast.Expr{vtmp}},
	)
	isBlank := func(e ast.Expr) bool {
		if e == nil {
			return true
		}
		id, ok := e.(*ast.Ident)
		return ok && id.Name == "_"
	}
	tok := rs.Tok
	if tok == token.ILLEGAL {
		tok = token.DEFINE
	}
	if !isBlank(rs.Key) {
		body = append(body, &ast.AssignStmt{Lhs: []ast.Expr{rs.Key}, Tok: tok, Rhs: []ast.Expr{typedK}})
		if tok == token.DEFINE {
			body = append(body, &ast.AssignStmt{Lhs: []ast.Expr{ast.NewIdent("_")}, Tok: token.ASSIGN, Rhs: []ast.Expr{rs.Key}})
		}
	}
	if !isBlank(rs.Value) {
		body = append(body, &ast.AssignStmt{Lhs: []ast.Expr{rs.Value}, Tok: tok, Rhs: []ast.Expr{vtmp}})
		if tok == token.DEFINE {
			body = append(body, &ast.AssignStmt{Lhs: []ast.Expr{ast.NewIdent("_")}, Tok: token.ASSIGN, Rhs: []ast.Expr{rs.Value}})
		}
	}
	// the original body keeps its own scope (it may legally redeclare the loop variables)
	body = append(body, &ast.BlockStmt{List: rs.Body.List})
	loop := &ast.RangeStmt{Key: ast.NewIdent("_"), Value: kID, Tok: token.DEFINE,
		X:    rtCall("Order", &ast.BasicLit{Kind: token.INT, Value: n}, mID),
		Body: &ast.BlockStmt{List: body}}
	var loopStmt ast.Stmt = loop
	if label != nil {
		loopStmt = &ast.LabeledStmt{Label: label, Stmt: loop}
	}
	return &ast.BlockStmt{List: []ast.Stmt{
		&ast.AssignStmt{Lhs: []ast.Expr{mID}, Tok: token.DEFINE, Rhs: []ast.Expr{rs.X}},
		loopStmt,
	}}
}
