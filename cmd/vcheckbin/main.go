// vcheckbin is the single binary holding every check; built by ./vcheck with the
// instrumentation overlay generated from the repository's working tree.
package main

import (
	"fmt"
	"os"

	"verif/internal/core"

	_ "verif/checks"
)

func main() {
	if len(os.Args) < 2 {
		fmt.Fprintln(os.Stderr, "usage: vcheckbin run <ID> <tier> | worker ... | replay <file> | list")
		os.Exit(2)
	}
	switch os.Args[1] {
	case "run":
		tier := "quick"
		if len(os.Args) > 3 {
			tier = os.Args[3]
		}
		os.Exit(core.Run(os.Args[2], tier))
	case "worker":
		os.Exit(core.WorkerMain(os.Args[2:]))
	case "replay":
		os.Exit(core.Replay(os.Args[2]))
	case "list":
		for _, id := range core.IDs() {
			fmt.Println(id)
		}
	default:
		if h := core.Extra[os.Args[1]]; h != nil {
			os.Exit(h(os.Args[2:]))
		}
		fmt.Fprintln(os.Stderr, "unknown command", os.Args[1])
		os.Exit(2)
	}
}
