package core

import (
	"bufio"
	"os"
	"path/filepath"
	"strings"
)

// KNOWN_FINDINGS.txt (committed, never written at run time), one entry per line:
//
//	known: property=<ID> signature=<sig> cases=<file under known/> <what fails>
//	fixed: property=<ID> <commit> <what failed>
//
// A `known:` entry downgrades a violating case to a KNOWN-FINDING line only when the
// case's signature equals <sig> AND its case key is listed in the sidecar file
// (exact set of violating cases recorded when the finding was triaged). `fixed:`
// entries suppress nothing.
type knownEntry struct {
	Sig   string
	What  string
	cases map[string]bool
}

type Known struct {
	entries []knownEntry
}

func LoadKnown(id string) *Known {
	k := &Known{}
	f, err := os.Open(filepath.Join(VerifDir(), "KNOWN_FINDINGS.txt"))
	if err != nil {
		return k
	}
	defer f.Close()
	sc := bufio.NewScanner(f)
	sc.Buffer(make([]byte, 1<<20), 1<<20)
	for sc.Scan() {
		ln := strings.TrimSpace(sc.Text())
		if !strings.HasPrefix(ln, "known:") {
			continue
		}
		rest := strings.TrimSpace(strings.TrimPrefix(ln, "known:"))
		f := strings.SplitN(rest, " ", 4)
		if len(f) < 3 || f[0] != "property="+id {
			continue
		}
		e := knownEntry{cases: map[string]bool{}}
		e.Sig = strings.TrimPrefix(f[1], "signature=")
		e.Sig = strings.ReplaceAll(e.Sig, "\\s", " ")
		cf := strings.TrimPrefix(f[2], "cases=")
		if len(f) == 4 {
			e.What = f[3]
		}
		if b, err := os.ReadFile(filepath.Join(VerifDir(), "known", cf)); err == nil {
			for _, c := range strings.Fields(string(b)) {
				e.cases[c] = true
			}
		}
		k.entries = append(k.entries, e)
	}
	return k
}

func (k *Known) Covers(sig, key string) bool {
	for _, e := range k.entries {
		if e.Sig == sig && e.cases[key] {
			return true
		}
	}
	return false
}
