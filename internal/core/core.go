// Package core is the shared driver of all checks: it shards finite,
// index-addressable case spaces over isolated worker subprocesses (ISO), collects
// violations, applies the known-findings list, writes replay files and the
// evidence file.
package core

import (
	"crypto/sha256"
	"encoding/hex"
	"encoding/json"
	"fmt"
	"os"
	"path/filepath"
	"runtime"
	"runtime/debug"
	"sort"
	"strings"
	"time"
)

// Result of executing one case.
type Result struct {
	Viol       *Violation
	Nontrivial bool
	Skipped    bool   // the model leaves this case undefined; executed for totality only
	Outcome    string // small label, used to count distinct observed outcomes
	Key        string // explicit-state search: canonical key of the state reached by this case
	States     int    // explicit-state checks: states visited by this case
	Trans      int    // transitions (operations applied / executions run)
	Extra      map[string]int
}

type Violation struct {
	Sub    string `json:"sub"`
	Sig    string `json:"sig"`
	Detail string `json:"detail"`
	// Choices: the choice vector / schedule of the failing execution (C09, C11, C07 lexer);
	// a replay executes exactly this vector without the explorer.
	Choices []int `json:"choices,omitempty"`
}

// ReplayChoices returns the recorded choice vector when the process is replaying a
// violation file (nil otherwise): the check then runs that single execution.
func ReplayChoices() ([]int, bool) {
	v := os.Getenv("VERIF_REPLAY_CHOICES")
	if v == "" {
		return nil, false
	}
	var c []int
	if json.Unmarshal([]byte(v), &c) != nil {
		return nil, false
	}
	return c, true
}

// Space is a finite enumerated case space. Exec must be deterministic.
type Space struct {
	Name string
	Size int
	Text func(i int) string
	Exec func(i int) Result
	// CaseTimeout: a case running longer is a HANG (0 => default 20s).
	CaseTimeout time.Duration
	// InProc: run in the parent process (no ISO); for very cheap spaces.
	InProc bool
	// Serial: run shards strictly one after the other in one worker (stateful spaces).
	Chunk int
}

type Check struct {
	ID          string
	Level       string // evidence level
	Rule        string
	Assumptions []string
	Spaces      func(tier string) []*Space
	// Dyn reconstructs a dynamically created space (BFS level) by name in a worker.
	Dyn func(tier, name string) *Space
	// Driver, when set, is called in the parent after the static spaces; it creates
	// further spaces on the fly (BFS levels) and runs them through run, which
	// returns the state keys reported per case index.
	Driver func(tier string, run func(sp *Space) map[int]string)
	// External runs in the parent after the spaces: a pass executed by another program
	// (e.g. a binary built with -race); it reports its cases through add.
	External func(tier string, add func(space string, index int, text string, r Result))
	// Post is run in the parent after all spaces (may add to the evidence).
	Post func(tier string, ev map[string]interface{})
}

var registry = map[string]*Check{}

func Register(c *Check)    { registry[c.ID] = c }
func Get(id string) *Check { return registry[id] }
func IDs() []string {
	var ids []string
	for k := range registry {
		ids = append(ids, k)
	}
	sort.Strings(ids)
	return ids
}

// Fail builds a violating result.
func Fail(sub, sig, detail string) Result {
	return Result{Viol: &Violation{Sub: sub, Sig: sig, Detail: detail}, Nontrivial: true}
}

// CaseKey is the tier-independent identity of a case (hash of its canonical text).
func CaseKey(space, text string) string {
	h := sha256.Sum256([]byte(space + "\x00" + text))
	return hex.EncodeToString(h[:8])
}

// PanicInfo describes a recovered panic.
type PanicInfo struct {
	Val   string
	Where string // innermost go-ucfg function on the stack
}

// Guard runs f and converts a panic into a PanicInfo.
func Guard(f func()) (pi *PanicInfo) {
	defer func() {
		if r := recover(); r != nil {
			pi = &PanicInfo{Val: fmt.Sprint(r), Where: innermostUcfg(string(debug.Stack()))}
		}
	}()
	f()
	return nil
}

func innermostUcfg(stack string) string {
	for _, ln := range strings.Split(stack, "\n") {
		if strings.HasPrefix(ln, "github.com/elastic/go-ucfg") && !strings.Contains(ln, "/verifrt.") {
			fn := ln
			if i := strings.LastIndex(fn, "("); i > 0 {
				fn = fn[:i]
			}
			fn = strings.TrimPrefix(fn, "github.com/elastic/go-ucfg")
			fn = strings.TrimLeft(fn, "./")
			// drop closure suffixes
			for strings.HasSuffix(fn, ".func1") || strings.HasSuffix(fn, ".func2") || strings.HasSuffix(fn, ".1") {
				fn = fn[:strings.LastIndex(fn, ".")]
			}
			return fn
		}
	}
	return "?"
}

func VerifDir() string {
	if d := os.Getenv("VERIF_DIR"); d != "" {
		return d
	}
	return "/verif"
}

func WorkDir() string {
	d := filepath.Join(VerifDir(), ".work")
	os.MkdirAll(d, 0755)
	return d
}

func Workers() int {
	n := runtime.NumCPU()
	if n > 16 {
		n = 16
	}
	if n < 1 {
		n = 1
	}
	return n
}

func jsonString(v interface{}) string {
	b, _ := json.Marshal(v)
	return string(b)
}

// Extra holds additional sub-commands of the check binary (registered by checks).
var Extra = map[string]func(args []string) int{}

// EvidenceDir: /verif/evidence unless VERIF_EVIDENCE_DIR redirects it (self-tests on mutants
// must not overwrite the evidence of the real tree).
func EvidenceDir() string {
	if d := os.Getenv("VERIF_EVIDENCE_DIR"); d != "" {
		return d
	}
	return filepath.Join(VerifDir(), "evidence")
}

func ReplayDir() string {
	if d := os.Getenv("VERIF_EVIDENCE_DIR"); d != "" {
		return filepath.Join(d, "replays")
	}
	return filepath.Join(VerifDir(), "replays")
}

// RunDir is a scratch directory private to one run (parent and its workers).
func RunDir() string {
	d := filepath.Join(WorkDir(), "run-"+os.Getenv("VERIF_RUN_ID"))
	os.MkdirAll(d, 0755)
	return d
}
