package core

import (
	"encoding/json"
	"fmt"
	"os"
	"path/filepath"
	"strings"
)

// Universe is an explicit-state search problem over operation histories: a state
// is the history that reaches it; successors are built by replaying the history on
// a fresh real object and applying one more operation. States are deduplicated by
// the Key the executor reports (canonical fingerprint of the implementation's heap
// graph + model state). The oracle is evaluated by Exec in every state.
type Universe struct {
	Name     string
	NumOps   int
	OpText   func(op int) string
	Exec     func(hist []int) Result
	MaxDepth int
	// MaxFrontier caps the number of states expanded per level (0 = unlimited);
	// hitting it is reported as exhaustive:false.
	MaxFrontier int
}

func frontierFile(u *Universe, depth int) string {
	return filepath.Join(RunDir(), fmt.Sprintf("frontier-%s-L%d.json", sanitize(u.Name), depth))
}

func levelName(u *Universe, depth int) string { return fmt.Sprintf("bfs/%s/L%d", u.Name, depth) }

// LevelSpace builds the space of level depth (histories of that length) from a frontier.
func LevelSpace(u *Universe, depth int, frontier [][]int) *Space {
	nops := u.NumOps
	size := len(frontier) * nops
	if depth == 0 {
		size = 1
	}
	hist := func(i int) []int {
		if depth == 0 {
			return nil
		}
		h := append([]int{}, frontier[i/nops]...)
		return append(h, i%nops)
	}
	return &Space{
		Name: levelName(u, depth),
		Size: size,
		Text: func(i int) string {
			var s []string
			for _, op := range hist(i) {
				s = append(s, u.OpText(op))
			}
			return "history: " + strings.Join(s, " ; ")
		},
		Exec: func(i int) Result {
			r := u.Exec(hist(i))
			r.Trans++
			return r
		},
	}
}

// DynLevel reconstructs a level space in a worker from the frontier file.
func DynLevel(us []*Universe, name string) *Space {
	for _, u := range us {
		for d := 0; d <= u.MaxDepth; d++ {
			if levelName(u, d) != name {
				continue
			}
			var frontier [][]int
			if d > 0 {
				b, err := os.ReadFile(frontierFile(u, d))
				if err != nil {
					return nil
				}
				if json.Unmarshal(b, &frontier) != nil {
					return nil
				}
			}
			return LevelSpace(u, d, frontier)
		}
	}
	return nil
}

// BFSStats is what DriveBFS measured.
type BFSStats struct {
	Universe string `json:"universe"`
	States   int    `json:"states"`
	PerLevel []int  `json:"new_states_per_level"`
	Depth    int    `json:"depth_completed"`
	Capped   bool   `json:"frontier_capped"`
}

// DriveBFS runs the breadth-first search level by level through run.
func DriveBFS(u *Universe, run func(sp *Space) map[int]string) BFSStats {
	st := BFSStats{Universe: u.Name}
	seen := map[string]bool{}
	var frontier [][]int
	for d := 0; d <= u.MaxDepth; d++ {
		if d > 0 {
			if len(frontier) == 0 {
				break
			}
			b, _ := json.Marshal(frontier)
			os.WriteFile(frontierFile(u, d), b, 0644)
		}
		sp := LevelSpace(u, d, frontier)
		keys := run(sp)
		if keys == nil && d > 0 {
			break
		}
		var next [][]int
		nops := u.NumOps
		newStates := 0
		for i := 0; i < sp.Size; i++ {
			k, ok := keys[i]
			if !ok || k == "" || seen[k] {
				continue
			}
			seen[k] = true
			newStates++
			var h []int
			if d > 0 {
				h = append(append([]int{}, frontier[i/nops]...), i%nops)
			}
			next = append(next, h)
		}
		st.PerLevel = append(st.PerLevel, newStates)
		st.Depth = d
		if u.MaxFrontier > 0 && len(next) > u.MaxFrontier {
			next = next[:u.MaxFrontier]
			st.Capped = true
		}
		frontier = next
	}
	st.States = len(seen)
	return st
}
