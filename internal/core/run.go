package core

import (
	"bufio"
	"bytes"
	"encoding/binary"
	"encoding/json"
	"fmt"
	"os"
	"os/exec"
	"path/filepath"
	"runtime/debug"
	"sort"
	"strconv"
	"strings"
	"sync"
	"syscall"
	"time"
)

// ---------------------------------------------------------------- worker side

type violRec struct {
	Space   string `json:"space"`
	Index   int    `json:"index"`
	Text    string `json:"text"`
	Key     string `json:"key"`
	Sub     string `json:"sub"`
	Sig     string `json:"sig"`
	Detail  string `json:"detail"`
	Choices []int  `json:"choices,omitempty"`
}

type shardOut struct {
	Evals      int            `json:"evals"`
	Nontrivial int            `json:"nontrivial"`
	Skipped    int            `json:"skipped"`
	States     int            `json:"states"`
	Trans      int            `json:"trans"`
	Outcomes   map[string]int `json:"outcomes"`
	Extra      map[string]int `json:"extra"`
	Viols      []violRec      `json:"viols"`    // first few per signature, full text
	ViolKeys   [][2]string    `json:"violkeys"` // (sig, key) of every violating case
	Samples    []string       `json:"samples"`
	KeyIdx     []int          `json:"keyidx,omitempty"`
	KeyVal     []string       `json:"keyval,omitempty"`
	Done       bool           `json:"done"`
}

const maxOutcomeLabels = 400
const maxViolsPerSigPerShard = 2

func (o *shardOut) add(sp *Space, i int, r Result) {
	o.Evals++
	if r.Skipped {
		o.Skipped++
	}
	if r.Nontrivial && !r.Skipped {
		o.Nontrivial++
	}
	o.States += r.States
	o.Trans += r.Trans
	if r.Outcome != "" {
		if _, ok := o.Outcomes[r.Outcome]; ok || len(o.Outcomes) < maxOutcomeLabels {
			o.Outcomes[r.Outcome]++
		} else {
			o.Outcomes["(other)"]++
		}
	}
	for k, v := range r.Extra {
		o.Extra[k] += v
	}
	if r.Key != "" {
		o.KeyIdx = append(o.KeyIdx, i)
		o.KeyVal = append(o.KeyVal, r.Key)
	}
	if r.Viol != nil {
		text := sp.Text(i)
		key := CaseKey(sp.Name, text)
		o.ViolKeys = append(o.ViolKeys, [2]string{r.Viol.Sig, key})
		n := 0
		for _, v := range o.Viols {
			if v.Sig == r.Viol.Sig {
				n++
			}
		}
		if n < maxViolsPerSigPerShard {
			o.Viols = append(o.Viols, violRec{sp.Name, i, text, key, r.Viol.Sub, r.Viol.Sig, r.Viol.Detail, r.Viol.Choices})
		}
	}
}

func newShardOut() *shardOut {
	return &shardOut{Outcomes: map[string]int{}, Extra: map[string]int{}}
}

// WorkerMain runs cases lo..hi of one space and prints a shardOut as JSON.
// args: <id> <tier> <space> <lo> <hi> <journal>
func WorkerMain(args []string) int {
	id, tier, spName := args[0], args[1], args[2]
	lo, _ := strconv.Atoi(args[3])
	hi, _ := strconv.Atoi(args[4])
	journal := args[5]
	debug.SetMaxStack(24 << 20)
	if os.Getenv("VERIF_NO_RLIMIT") == "" {
		lim := syscall.Rlimit{Cur: 2 << 30, Max: 2 << 30}
		syscall.Setrlimit(syscall.RLIMIT_AS, &lim)
	}
	chk := Get(id)
	if chk == nil {
		fmt.Fprintln(os.Stderr, "unknown check", id)
		return 2
	}
	var sp *Space
	for _, s := range chk.Spaces(tier) {
		if s.Name == spName {
			sp = s
		}
	}
	if sp == nil && chk.Dyn != nil {
		sp = chk.Dyn(tier, spName)
	}
	if sp == nil {
		fmt.Fprintln(os.Stderr, "unknown space", spName)
		return 2
	}
	var jm []byte
	if journal != "" {
		f, err := os.OpenFile(journal, os.O_RDWR, 0644)
		if err == nil {
			jm, _ = syscall.Mmap(int(f.Fd()), 0, 16, syscall.PROT_READ|syscall.PROT_WRITE, syscall.MAP_SHARED)
			f.Close()
		}
	}
	out := newShardOut()
	nsamples := 0
	for i := lo; i < hi && i < sp.Size; i++ {
		if jm != nil {
			binary.LittleEndian.PutUint64(jm[0:8], uint64(i)+1)
			binary.LittleEndian.PutUint64(jm[8:16], uint64(time.Now().UnixNano()))
		}
		r := sp.Exec(i)
		out.add(sp, i, r)
		if nsamples < 2 && (r.Nontrivial || i == lo) && (i-lo)%97 == 0 {
			out.Samples = append(out.Samples, sp.Text(i))
			nsamples++
		}
	}
	out.Done = true
	if jm != nil {
		binary.LittleEndian.PutUint64(jm[0:8], 0)
	}
	w := bufio.NewWriter(os.Stdout)
	fmt.Fprintln(w, "SHARDOUT "+jsonString(out))
	w.Flush()
	return 0
}

// ---------------------------------------------------------------- parent side

type spaceStat struct {
	Name       string         `json:"space"`
	Size       int            `json:"size"`
	Evals      int            `json:"evaluations"`
	Nontrivial int            `json:"nontrivial"`
	Skipped    int            `json:"undefined_by_model"`
	States     int            `json:"states,omitempty"`
	Trans      int            `json:"transitions,omitempty"`
	Outcomes   int            `json:"distinct_outcomes"`
	Exhaustive bool           `json:"exhaustive"`
	Crashes    int            `json:"worker_deaths"`
	WallS      float64        `json:"wall_s"`
	Extra      map[string]int `json:"extra,omitempty"`
	Sample     string         `json:"sample,omitempty"`
}

type runState struct {
	chk      *Check
	tier     string
	mu       sync.Mutex
	viols    []violRec
	violKeys map[string]map[string]bool // sig -> keys
	agg      map[string]*shardOut       // per space
	deadline time.Time
	capped   bool
	crashes  int
	// hangConfirmed: some hang of this run reproduced alone with a generous limit
	hangConfirmed bool
	keys          map[string]map[int]string // per space: case index -> state key
	known         *Known
	unlisted      int       // violating cases no known finding covers
	stopAt        time.Time // once unlisted > 0: no new shard is started after this instant
}

// stopEarly: a run that has already found violations no known finding covers does not
// start further shards once the grace period is over (the verdict is settled; on a badly
// broken tree every further case costs a worker death or a hang timeout).
func (rs *runState) stopEarly() bool {
	rs.mu.Lock()
	defer rs.mu.Unlock()
	if rs.unlisted > 0 && time.Now().After(rs.stopAt) {
		rs.capped = true
		return true
	}
	return false
}

func selfExe() string {
	p, err := os.Executable()
	if err != nil {
		return os.Args[0]
	}
	return p
}

// runShard runs [lo,hi) of sp in a worker; handles crashes and hangs.
func (rs *runState) runShard(sp *Space, lo, hi int) {
	caseTO := sp.CaseTimeout
	if caseTO == 0 {
		caseTO = 10 * time.Second
	}
	for lo < hi {
		if rs.stopEarly() {
			return
		}
		if time.Now().After(rs.deadline) {
			rs.mu.Lock()
			rs.capped = true
			rs.mu.Unlock()
			return
		}
		jf, _ := os.CreateTemp(WorkDir(), "journal-*")
		jf.Write(make([]byte, 16))
		jf.Close()
		jname := jf.Name()
		out, died, hung, firstMsg := runWorkerMsg(rs.chk.ID, rs.tier, sp.Name, lo, hi, jname, caseTO)
		cur := readJournal(jname)
		os.Remove(jname)
		if out != nil {
			rs.merge(sp, out)
		}
		if out != nil && out.Done {
			return
		}
		if !died && !hung {
			// worker failed before running anything: harness problem
			fmt.Fprintf(os.Stderr, "worker for %s [%d,%d) produced no output\n", sp.Name, lo, hi)
			os.Exit(3)
		}
		if cur < 0 {
			fmt.Fprintf(os.Stderr, "worker for %s [%d,%d) died without journal entry\n", sp.Name, lo, hi)
			os.Exit(3)
		}
		// The worker died or hung while executing case `cur`. Cases lo..cur-1 ran but their
		// output is lost: re-run them (they are known not to crash), then confirm the crash alone.
		if cur > lo {
			// (recursively: should one of them die this time, it is handled the same way)
			rs.runShard(sp, lo, cur)
		}
		kind := "CRASH"
		if hung {
			kind = "HANG"
		}
		confirmed := 0
		var lastMsg string
		// the first few crashes are confirmed 3x alone; later ones once (each costs a worker)
		rs.mu.Lock()
		rs.crashes++
		need := 2
		if rs.crashes > 2 {
			need = 0 // later deaths of the same run are recorded without re-running them alone
		}
		confirmTO := caseTO
		if hung {
			// A hang is a wall-clock observation: on a loaded machine a worker can miss the
			// per-case limit without the case being at fault (seen once: 14 "hangs" in a
			// thorough run next to two other heavy jobs, none reproducible). Until one hang
			// of this run has been confirmed alone - twice, with six times the limit - every
			// hang has to be confirmed that way; afterwards the run has failed anyway and
			// further hangs are recorded as they come.
			if !rs.hangConfirmed {
				need = 2
				confirmTO = 6 * caseTO
				if confirmTO < 60*time.Second {
					confirmTO = 60 * time.Second
				}
			} else {
				need = 0
			}
		}
		rs.mu.Unlock()
		for k := 0; k < need; k++ {
			_, d, h, msg := runWorkerMsg(rs.chk.ID, rs.tier, sp.Name, cur, cur+1, "", confirmTO)
			if d || h {
				confirmed++
				lastMsg = msg
			}
		}
		if hung && need > 0 && confirmed == need {
			rs.mu.Lock()
			rs.hangConfirmed = true
			rs.mu.Unlock()
		}
		if need == 0 {
			lastMsg = firstMsg
		}
		if confirmed == need {
			o := newShardOut()
			sig := kind + "@" + fatalSig(lastMsg)
			o.add(sp, cur, Result{Viol: &Violation{Sub: "iso", Sig: sig, Detail: "worker process " + strings.ToLower(kind) + ": " + firstLines(lastMsg, 6)}, Nontrivial: true})
			o.Extra["worker_deaths"] = 1
			rs.merge(sp, o)
		} else if confirmed > 0 && !hung {
			fmt.Fprintf(os.Stderr, "harness nondeterminism: %s case %d crashed %d/%d times alone\n", sp.Name, cur, confirmed, need)
			os.Exit(3)
		} else {
			if hung {
				// a hang (no progress within the per-case limit) that does not reproduce every
				// time the case runs alone is a slow case on a loaded machine, not a verdict:
				// the run is marked as not exhaustive and goes on (no wall-clock oracle)
				fmt.Fprintf(os.Stderr, "note: %s case %d exceeded the per-case time limit %d/%d times alone; counted as unconfirmed, run marked not exhaustive\n", sp.Name, cur, confirmed, need)
				rs.mu.Lock()
				rs.capped = true
				rs.mu.Unlock()
				o := newShardOut()
				o.Extra["unconfirmed_hangs"] = 1
				rs.merge(sp, o)
			}
			// did not reproduce alone: run it normally
			o2, _, _ := runWorker(rs.chk.ID, rs.tier, sp.Name, cur, cur+1, "", caseTO)
			if o2 != nil {
				rs.merge(sp, o2)
			}
		}
		lo = cur + 1
	}
}

func firstLines(s string, n int) string {
	ls := strings.Split(strings.TrimSpace(s), "\n")
	if len(ls) > n {
		ls = ls[:n]
	}
	return strings.Join(ls, " | ")
}

func fatalSig(msg string) string {
	where := innermostUcfg(msg)
	kind := "fatal"
	switch {
	case strings.Contains(msg, "stack overflow") || strings.Contains(msg, "stack exceeds"):
		kind = "stackoverflow"
	case strings.Contains(msg, "out of memory") || strings.Contains(msg, "cannot allocate"):
		kind = "oom"
	case strings.Contains(msg, "all goroutines are asleep"):
		kind = "deadlock"
	case strings.Contains(msg, "panic:"):
		kind = "panic"
	case msg == "":
		kind = "timeout"
	}
	return kind + "@" + where
}

func readJournal(name string) int {
	b, err := os.ReadFile(name)
	if err != nil || len(b) < 8 {
		return -1
	}
	v := binary.LittleEndian.Uint64(b[0:8])
	if v == 0 {
		return -1
	}
	return int(v - 1)
}

func runWorker(id, tier, space string, lo, hi int, journal string, caseTO time.Duration) (*shardOut, bool, bool) {
	o, d, h, _ := runWorkerMsg(id, tier, space, lo, hi, journal, caseTO)
	return o, d, h
}

// runWorkerMsg returns (output, died, hung, stderr).
func runWorkerMsg(id, tier, space string, lo, hi int, journal string, caseTO time.Duration) (*shardOut, bool, bool, string) {
	cmd := exec.Command(selfExe(), "worker", id, tier, space, strconv.Itoa(lo), strconv.Itoa(hi), journal)
	cmd.Env = append(os.Environ(), "GOMAXPROCS=2", "GOTRACEBACK=single")
	var stdout, stderr bytes.Buffer
	cmd.Stdout = &stdout
	cmd.Stderr = &limitedWriter{buf: &stderr, max: 1 << 16}
	if err := cmd.Start(); err != nil {
		fmt.Fprintln(os.Stderr, "cannot start worker:", err)
		os.Exit(3)
	}
	done := make(chan error, 1)
	go func() { done <- cmd.Wait() }()
	hung := false
	// hang detection: the journal's timestamp of the current case must advance.
	tick := time.NewTicker(500 * time.Millisecond)
	defer tick.Stop()
	start := time.Now()
	var werr error
loop:
	for {
		select {
		case werr = <-done:
			break loop
		case <-tick.C:
			var since time.Duration
			if journal != "" {
				b, err := os.ReadFile(journal)
				if err == nil && len(b) >= 16 {
					ts := int64(binary.LittleEndian.Uint64(b[8:16]))
					if ts > 0 {
						since = time.Since(time.Unix(0, ts))
					} else {
						since = time.Since(start)
					}
				}
			} else {
				// no journal: whole (small) range must finish in caseTO * n
				since = time.Since(start) / time.Duration(hi-lo)
			}
			if since > caseTO+30*time.Second && time.Since(start) > caseTO {
				hung = true
				cmd.Process.Kill()
				werr = <-done
				break loop
			}
			if journal == "" && time.Since(start) > time.Duration(hi-lo)*caseTO {
				hung = true
				cmd.Process.Kill()
				werr = <-done
				break loop
			}
		}
	}
	var out *shardOut
	for _, ln := range strings.Split(stdout.String(), "\n") {
		if strings.HasPrefix(ln, "SHARDOUT ") {
			var o shardOut
			if json.Unmarshal([]byte(ln[9:]), &o) == nil {
				out = &o
			}
		}
	}
	died := werr != nil && !hung
	return out, died, hung, stderr.String()
}

type limitedWriter struct {
	buf *bytes.Buffer
	max int
}

func (l *limitedWriter) Write(p []byte) (int, error) {
	if l.buf.Len() < l.max {
		n := l.max - l.buf.Len()
		if n > len(p) {
			n = len(p)
		}
		l.buf.Write(p[:n])
	}
	return len(p), nil
}

func (rs *runState) merge(sp *Space, o *shardOut) {
	rs.mu.Lock()
	defer rs.mu.Unlock()
	a := rs.agg[sp.Name]
	if a == nil {
		a = newShardOut()
		rs.agg[sp.Name] = a
	}
	a.Evals += o.Evals
	a.Nontrivial += o.Nontrivial
	a.Skipped += o.Skipped
	a.States += o.States
	a.Trans += o.Trans
	for k, v := range o.Outcomes {
		a.Outcomes[k] += v
	}
	for k, v := range o.Extra {
		a.Extra[k] += v
	}
	if len(a.Samples) < 3 {
		a.Samples = append(a.Samples, o.Samples...)
	}
	for i, idx := range o.KeyIdx {
		if rs.keys == nil {
			rs.keys = map[string]map[int]string{}
		}
		m := rs.keys[sp.Name]
		if m == nil {
			m = map[int]string{}
			rs.keys[sp.Name] = m
		}
		m[idx] = o.KeyVal[i]
	}
	rs.viols = append(rs.viols, o.Viols...)
	for _, sk := range o.ViolKeys {
		m := rs.violKeys[sk[0]]
		if m == nil {
			m = map[string]bool{}
			rs.violKeys[sk[0]] = m
		}
		if !m[sk[1]] && rs.known != nil && !rs.known.Covers(sk[0], sk[1]) {
			rs.unlisted++
		}
		m[sk[1]] = true
	}
}

// Run executes a check at a tier; returns the process exit code.
func Run(id, tier string) int {
	chk := Get(id)
	if chk == nil {
		fmt.Fprintln(os.Stderr, "unknown check", id)
		return 2
	}
	start := time.Now()
	seed, _ := strconv.Atoi(os.Getenv("VERIF_SEED"))
	budget := 10 * time.Minute
	if tier == "thorough" {
		budget = 45 * time.Minute
	}
	if b := os.Getenv("VERIF_BUDGET_S"); b != "" {
		if n, err := strconv.Atoi(b); err == nil {
			budget = time.Duration(n) * time.Second
		}
	}
	rs := &runState{chk: chk, tier: tier, violKeys: map[string]map[string]bool{}, agg: map[string]*shardOut{}, deadline: start.Add(budget)}
	rs.known = LoadKnown(id)
	grace := 90 * time.Second
	if tier == "thorough" {
		grace = 10 * time.Minute
	}
	if g := os.Getenv("VERIF_STOP_AFTER_S"); g != "" {
		if n, err := strconv.Atoi(g); err == nil {
			grace = time.Duration(n) * time.Second
		}
	}
	rs.stopAt = start.Add(grace)
	spaces := chk.Spaces(tier)
	os.RemoveAll(filepath.Join(ReplayDir(), id))
	os.Setenv("VERIF_RUN_ID", strconv.Itoa(os.Getpid()))
	defer os.RemoveAll(RunDir())
	var stats []spaceStat
	only := os.Getenv("VERIF_SPACE") // development aid: run matching spaces only
	runSpace := func(sp *Space) map[int]string {
		if only != "" && !strings.Contains(sp.Name, only) {
			rs.capped = true
			return nil
		}
		t0 := time.Now()
		if sp.InProc {
			o := newShardOut()
			for i := 0; i < sp.Size; i++ {
				r := sp.Exec(i)
				o.add(sp, i, r)
				if i == 0 || (r.Nontrivial && len(o.Samples) < 3) {
					o.Samples = append(o.Samples, sp.Text(i))
				}
			}
			rs.merge(sp, o)
		} else {
			w := Workers()
			chunk := sp.Chunk
			if chunk == 0 {
				chunk = sp.Size / (w * 4)
				if chunk < 1 {
					chunk = 1
				}
				if chunk > 20000 {
					chunk = 20000
				}
			}
			type rng struct{ lo, hi int }
			var shards []rng
			for lo := 0; lo < sp.Size; lo += chunk {
				hi := lo + chunk
				if hi > sp.Size {
					hi = sp.Size
				}
				shards = append(shards, rng{lo, hi})
			}
			// shards are started in a strided order (every w-th first), so that all regions of
			// the space are sampled early by the first wave of workers; all of them still run
			if n := len(shards); n > w {
				strided := make([]rng, 0, n)
				for off := 0; off < w; off++ {
					for k := off; k < n; k += w {
						strided = append(strided, shards[k])
					}
				}
				shards = strided
			}
			// VERIF_SEED only rotates the order in which shards are scheduled.
			if len(shards) > 0 && seed != 0 {
				k := ((seed % len(shards)) + len(shards)) % len(shards)
				shards = append(shards[k:], shards[:k]...)
			}
			ch := make(chan rng)
			var wg sync.WaitGroup
			for i := 0; i < w; i++ {
				wg.Add(1)
				go func() {
					defer wg.Done()
					for s := range ch {
						rs.runShard(sp, s.lo, s.hi)
					}
				}()
			}
			for _, s := range shards {
				ch <- s
			}
			close(ch)
			wg.Wait()
		}
		a := rs.agg[sp.Name]
		if a == nil {
			a = newShardOut()
		}
		st := spaceStat{Name: sp.Name, Size: sp.Size, Evals: a.Evals, Nontrivial: a.Nontrivial, Skipped: a.Skipped,
			States: a.States, Trans: a.Trans, Outcomes: len(a.Outcomes), Exhaustive: a.Evals >= sp.Size && a.Extra["scenarios_capped"] == 0 && a.Extra["unconfirmed_hangs"] == 0, WallS: round2(time.Since(t0).Seconds()), Extra: a.Extra}
		if len(a.Samples) > 0 {
			st.Sample = a.Samples[0]
		}
		st.Crashes = a.Extra["worker_deaths"]
		stats = append(stats, st)
		fmt.Printf("%s %s space=%s size=%d evaluated=%d nontrivial=%d undefined=%d outcomes=%d wall=%.1fs\n", id, tier, sp.Name, sp.Size, a.Evals, a.Nontrivial, a.Skipped, len(a.Outcomes), time.Since(t0).Seconds())
		keys := rs.keys[sp.Name]
		delete(rs.keys, sp.Name)
		return keys
	}
	for _, sp := range spaces {
		runSpace(sp)
	}
	if chk.Driver != nil {
		chk.Driver(tier, runSpace)
	}
	if chk.External != nil && only == "" {
		t0 := time.Now()
		outs := map[string]*shardOut{}
		texts := map[string]map[int]string{}
		chk.External(tier, func(space string, index int, text string, r Result) {
			o := outs[space]
			if o == nil {
				o = newShardOut()
				outs[space] = o
				texts[space] = map[int]string{}
			}
			texts[space][index] = text
			sp := &Space{Name: space, Text: func(i int) string { return texts[space][i] }}
			o.add(sp, index, r)
			if len(o.Samples) < 2 {
				o.Samples = append(o.Samples, text)
			}
		})
		for name, o := range outs {
			sp := &Space{Name: name, Size: o.Evals}
			rs.merge(sp, o)
			a := rs.agg[name]
			stats = append(stats, spaceStat{Name: name, Size: o.Evals, Evals: a.Evals, Nontrivial: a.Nontrivial, Skipped: a.Skipped, Outcomes: len(a.Outcomes), Exhaustive: true, WallS: round2(time.Since(t0).Seconds())})
			fmt.Printf("%s %s space=%s (external pass) evaluated=%d nontrivial=%d wall=%.1fs\n", id, tier, name, a.Evals, a.Nontrivial, time.Since(t0).Seconds())
		}
	}
	return rs.finish(stats, start, seed)
}

func round2(f float64) float64 { return float64(int(f*100+0.5)) / 100 }

func (rs *runState) finish(stats []spaceStat, start time.Time, seed int) int {
	chk := rs.chk
	kf := LoadKnown(chk.ID)
	// group violations by signature; smallest (by space order then index) first
	sort.SliceStable(rs.viols, func(i, j int) bool {
		if rs.viols[i].Sig != rs.viols[j].Sig {
			return rs.viols[i].Sig < rs.viols[j].Sig
		}
		if rs.viols[i].Space != rs.viols[j].Space {
			return rs.viols[i].Space < rs.viols[j].Space
		}
		return rs.viols[i].Index < rs.viols[j].Index
	})
	exit := 0
	nviol := 0
	knownHit := map[string]int{}
	sigs := make([]string, 0, len(rs.violKeys))
	for s := range rs.violKeys {
		sigs = append(sigs, s)
	}
	sort.Strings(sigs)
	perSig := map[string]int{}
	for _, sig := range sigs {
		keys := rs.violKeys[sig]
		perSig[sig] = len(keys)
		unlisted := 0
		for k := range keys {
			if kf.Covers(sig, k) {
				knownHit[sig]++
			} else {
				unlisted++
			}
		}
		if unlisted == 0 {
			continue
		}
		nviol += unlisted
		exit = 1
		// write the smallest unlisted case of this signature as replay artefact
		for _, v := range rs.viols {
			if v.Sig != sig || kf.Covers(sig, v.Key) {
				continue
			}
			path := writeReplay(chk.ID, rs.tier, v)
			fmt.Printf("VIOLATION property=%s replay=%s\n", chk.ID, path)
			fmt.Printf("  signature=%s cases=%d sub=%s\n  case: %s\n  %s\n", sig, unlisted, v.Sub, trunc(v.Text, 600), trunc(v.Detail, 1200))
			break
		}
	}
	if dir := os.Getenv("VERIF_DUMP_VIOLKEYS"); dir != "" {
		// triage aid: the exact set of violating case keys per signature (sidecar of a known: entry)
		os.MkdirAll(dir, 0755)
		for sig, keys := range rs.violKeys {
			var ks []string
			for k := range keys {
				ks = append(ks, k)
			}
			sort.Strings(ks)
			os.WriteFile(filepath.Join(dir, chk.ID+"-"+sanitize(sig)+"."+rs.tier+".cases"), []byte(strings.Join(ks, "\n")+"\n"), 0644)
		}
	}
	for _, e := range kf.entries {
		if knownHit[e.Sig] > 0 {
			fmt.Printf("KNOWN-FINDING: property=%s signature=%s cases=%d %s\n", chk.ID, e.Sig, knownHit[e.Sig], e.What)
		}
	}
	// evidence
	evals, nontriv, states, trans, skipped := 0, 0, 0, 0, 0
	exhaustive := !rs.capped
	var samples []interface{}
	outcomes := 0
	for _, st := range stats {
		evals += st.Evals
		nontriv += st.Nontrivial
		states += st.States
		trans += st.Trans
		skipped += st.Skipped
		outcomes += st.Outcomes
		if !st.Exhaustive {
			exhaustive = false
		}
		if a := rs.agg[st.Name]; a != nil {
			for i, s := range a.Samples {
				if i < 2 {
					samples = append(samples, map[string]string{"space": st.Name, "case": trunc(s, 400)})
				}
			}
		}
	}
	if states == 0 {
		states = evals
	}
	if trans == 0 {
		trans = evals
	}
	cov := map[string]interface{}{
		"evaluations":                   evals,
		"distinct_nontrivial":           nontriv,
		"rule":                          chk.Rule,
		"samples":                       samples,
		"states":                        states,
		"transitions":                   trans,
		"traces_validated_against_impl": evals,
		"exhaustive":                    exhaustive,
		"undefined_by_model":            skipped,
		"distinct_outcome_labels":       outcomes,
		"spaces":                        stats,
		"violations_by_signature":       perSig,
		"known_findings_hit":            knownHit,
		"time_budget_hit":               rs.capped,
		"workers":                       Workers(),
	}
	if si := loadSiteStats(); si != nil {
		cov["instrumentation"] = si
	}
	if chk.Post != nil {
		chk.Post(rs.tier, cov)
	}
	ev := map[string]interface{}{
		"property_id": chk.ID,
		"tier":        rs.tier,
		"seed":        seed,
		"level":       chk.Level,
		"coverage":    cov,
		"assumptions": chk.Assumptions,
		"wall_s":      round2(time.Since(start).Seconds()),
		"violations":  nviol,
	}
	b, _ := json.MarshalIndent(ev, "", " ")
	os.MkdirAll(EvidenceDir(), 0755)
	os.WriteFile(filepath.Join(EvidenceDir(), chk.ID+".json"), b, 0644)
	fmt.Printf("%s %s: evaluations=%d nontrivial=%d violations=%d known=%d exhaustive=%v wall=%.1fs\n", chk.ID, rs.tier, evals, nontriv, nviol, len(knownHit), exhaustive, time.Since(start).Seconds())
	return exit
}

func loadSiteStats() interface{} {
	p := os.Getenv("VERIF_SITES")
	if p == "" {
		return nil
	}
	b, err := os.ReadFile(p)
	if err != nil {
		return nil
	}
	var v struct {
		Stats map[string]int `json:"stats"`
	}
	if json.Unmarshal(b, &v) != nil {
		return nil
	}
	return v.Stats
}

func trunc(s string, n int) string {
	if len(s) > n {
		return s[:n] + "…"
	}
	return s
}

type replayFile struct {
	Property string `json:"property"`
	Tier     string `json:"tier"`
	violRec
}

func writeReplay(id, tier string, v violRec) string {
	dir := filepath.Join(ReplayDir(), id)
	os.MkdirAll(dir, 0755)
	name := sanitize(v.Sig)
	if len(name) > 80 {
		name = name[:80]
	}
	path := filepath.Join(dir, name+"-"+v.Key+".json")
	b, _ := json.MarshalIndent(replayFile{id, tier, v}, "", " ")
	os.WriteFile(path, b, 0644)
	return path
}

func sanitize(s string) string {
	var sb strings.Builder
	for _, r := range s {
		switch {
		case r >= 'a' && r <= 'z', r >= 'A' && r <= 'Z', r >= '0' && r <= '9', r == '-', r == '_', r == '.':
			sb.WriteRune(r)
		default:
			sb.WriteByte('_')
		}
	}
	return sb.String()
}

// Replay re-executes the single case of a replay file (in an isolated worker).
func Replay(path string) int {
	b, err := os.ReadFile(path)
	if err != nil {
		fmt.Fprintln(os.Stderr, err)
		return 2
	}
	var rf replayFile
	if err := json.Unmarshal(b, &rf); err != nil {
		fmt.Fprintln(os.Stderr, err)
		return 2
	}
	chk := Get(rf.Property)
	if chk == nil {
		fmt.Fprintln(os.Stderr, "unknown property", rf.Property)
		return 2
	}
	var sp *Space
	for _, s := range chk.Spaces(rf.Tier) {
		if s.Name == rf.Space {
			sp = s
		}
	}
	if sp == nil {
		fmt.Fprintln(os.Stderr, "unknown space", rf.Space)
		return 2
	}
	idx := rf.Index
	if idx >= sp.Size || sp.Text(idx) != rf.Text {
		// enumeration changed: search by text
		idx = -1
		for i := 0; i < sp.Size; i++ {
			if sp.Text(i) == rf.Text {
				idx = i
				break
			}
		}
		if idx < 0 {
			fmt.Fprintln(os.Stderr, "case not found in the current enumeration:", rf.Text)
			return 2
		}
	}
	if rf.Choices != nil {
		b, _ := json.Marshal(rf.Choices)
		os.Setenv("VERIF_REPLAY_CHOICES", string(b))
		fmt.Printf("replaying the recorded choice vector / schedule %v only (no exploration)\n", rf.Choices)
	}
	fails := 0
	var last string
	for k := 0; k < 5; k++ {
		out, died, hung, msg := runWorkerMsg(rf.Property, rf.Tier, sp.Name, idx, idx+1, "", 20*time.Second)
		cur := ""
		switch {
		case died || hung:
			cur = "worker death: " + firstLines(msg, 4)
			fails++
		case out != nil && len(out.Viols) > 0:
			cur = out.Viols[0].Sig + " :: " + out.Viols[0].Detail
			fails++
		default:
			cur = "ok"
		}
		if k > 0 && cur != last {
			fmt.Fprintf(os.Stderr, "harness nondeterminism on replay: %q vs %q\n", last, cur)
			return 3
		}
		last = cur
	}
	fmt.Printf("replay %s\n  case: %s\n  result (5 identical runs): %s\n", path, rf.Text, trunc(last, 1500))
	if fails > 0 {
		fmt.Printf("VIOLATION property=%s replay=%s\n", rf.Property, path)
		return 1
	}
	return 0
}
