// Package sched is the cooperative scheduler (SCHED engine): harness threads and
// every goroutine the library starts are real goroutines of which exactly one holds
// the token. At every scheduling point (function entry and heap store in go-ucfg,
// goroutine start, channel operation - all inserted by the overlay) the running
// thread decides, from the recorded choice prefix, which enabled thread continues.
// Blocking channel operations are scheduler-aware: a thread arriving at a send or
// receive registers the pending operation; its enabledness is computed from the
// channel state (len < cap for a send, len > 0 or closed for a receive), so a blocked
// thread is never a choice. No enabled thread while some are unfinished = deadlock.
// The explorer enumerates all schedules up to a preemption bound (CHESS-style).
package sched

import (
	"fmt"
	"reflect"
	"runtime"
	"runtime/debug"
	"strings"
	"time"

	"github.com/elastic/go-ucfg/verifrt"
)

type thread struct {
	id      int
	resume  chan struct{}
	done    bool
	started bool
	body    func()
	// pending channel operation (nil when runnable)
	pendKind int // 0 send, 1 recv
	pendCh   reflect.Value
	pending  bool
	panicVal string
}

type point struct {
	enabled  []int // thread ids in canonical order
	chosen   int   // index into enabled
	running  int   // id of the thread that was running (-1 at start)
	runnable bool  // the running thread was still enabled (switching away = preemption)
}

type Execution struct {
	Points   []point
	Choices  []int
	Deadlock bool
	Panics   []string
	Timeout  bool
	NThreads int
}

type run struct {
	threads []*thread
	cur     int
	prefix  []int
	x       *Execution
	closed  map[uintptr]bool
	keep    []interface{} // closed channels are kept alive so that their address is not reused
	finish  chan struct{}
	stopped bool
}

var active *run

// ChanOnly restricts the scheduling points to goroutine starts and channel operations
// (used to explore the lexer/parser pair without a preemption bound).
var ChanOnly bool

func (r *run) enabledOf(t *thread) bool {
	if t.done {
		return false
	}
	if !t.pending {
		return true
	}
	ch := t.pendCh
	if t.pendKind == 0 {
		return ch.Len() < ch.Cap() || r.closed[ch.Pointer()] // send on closed panics: let it run
	}
	return ch.Len() > 0 || r.closed[ch.Pointer()]
}

// decide picks the next thread; called by the token holder.
func (r *run) decide() int {
	var en []int
	runnable := false
	if r.cur >= 0 && r.enabledOf(r.threads[r.cur]) {
		en = append(en, r.cur)
		runnable = true
	}
	for _, t := range r.threads {
		if t.id != r.cur && r.enabledOf(t) {
			en = append(en, t.id)
		}
	}
	if len(en) == 0 {
		return -1
	}
	c := 0
	if len(en) > 1 {
		k := len(r.x.Points)
		if k < len(r.prefix) {
			c = r.prefix[k]
			if c >= len(en) {
				panic(fmt.Sprintf("sched: replay diverged at point %d: choice %d of %d enabled", k, c, len(en)))
			}
		}
		r.x.Points = append(r.x.Points, point{enabled: en, chosen: c, running: r.cur, runnable: runnable})
		r.x.Choices = append(r.x.Choices, c)
	}
	return en[c]
}

// yield: the running thread gives the token to the thread chosen by decide.
func (r *run) yield(self *thread) {
	if r.stopped {
		return
	}
	next := r.decide()
	if next == self.id {
		return
	}
	if next < 0 {
		// nothing enabled: deadlock (self is blocked)
		r.x.Deadlock = true
		r.stop()
		select {} // this goroutine is abandoned
	}
	r.cur = next
	r.threads[next].resume <- struct{}{}
	<-self.resume
}

func (r *run) stop() {
	if !r.stopped {
		r.stopped = true
		close(r.finish)
	}
}

func (r *run) current() *thread {
	if r.cur < 0 {
		return nil
	}
	return r.threads[r.cur]
}

func (r *run) spawn(body func()) *thread {
	t := &thread{id: len(r.threads), resume: make(chan struct{}, 1), body: body}
	r.threads = append(r.threads, t)
	go func() {
		<-t.resume
		defer func() {
			if p := recover(); p != nil {
				t.panicVal = fmt.Sprint(p) + " @ " + firstUcfgFrame(string(debug.Stack()))
				r.x.Panics = append(r.x.Panics, t.panicVal)
			}
			t.done = true
			if r.stopped {
				return
			}
			next := r.decide()
			if next < 0 {
				all := true
				for _, o := range r.threads {
					if !o.done {
						all = false
					}
				}
				if !all {
					r.x.Deadlock = true
				}
				r.stop()
				return
			}
			r.cur = next
			r.threads[next].resume <- struct{}{}
		}()
		t.body()
	}()
	return t
}

func firstUcfgFrame(stack string) string {
	for _, ln := range strings.Split(stack, "\n") {
		if strings.HasPrefix(ln, "github.com/elastic/go-ucfg") && !strings.Contains(ln, "/verifrt.") {
			if i := strings.LastIndex(ln, "("); i > 0 {
				ln = ln[:i]
			}
			return strings.TrimPrefix(ln, "github.com/elastic/go-ucfg")
		}
	}
	return "?"
}

func install(r *run) {
	active = r
	point := func(site int) {
		if t := r.current(); t != nil && !r.stopped {
			r.yield(t)
		}
	}
	verifrt.ChanPointHook = point
	verifrt.PointHook = point
	if ChanOnly {
		verifrt.PointHook = nil
	}
	verifrt.GoHook = func(site int, f func()) {
		r.spawn(f)
		if t := r.current(); t != nil {
			r.yield(t)
		}
	}
	verifrt.ChanDoneHook = func(ch interface{}) {
		r.closed[reflect.ValueOf(ch).Pointer()] = true
		r.keep = append(r.keep, ch)
	}
	verifrt.BlockHook = func(kind int, ch reflect.Value, try func() bool) {
		t := r.current()
		if t == nil || r.stopped {
			// not under the scheduler: native blocking behaviour
			for !try() {
				time.Sleep(time.Microsecond)
			}
			return
		}
		t.pending, t.pendKind, t.pendCh = true, kind, ch
		r.yield(t) // returns only when this thread is enabled and chosen
		t.pending = false
		if !try() {
			panic("sched: channel operation not enabled although scheduled (enabledness model wrong)")
		}
	}
}

func uninstall() {
	verifrt.PointHook, verifrt.ChanPointHook, verifrt.GoHook, verifrt.ChanDoneHook, verifrt.BlockHook = nil, nil, nil, nil, nil
	active = nil
}

// Run executes bodies as threads under the scheduler with the given choice prefix.
func Run(prefix []int, bodies []func()) *Execution {
	// goroutines the library started natively before (e.g. the lexer of a NewFrom in the
	// scenario's setup) may still be executing their last statements: wait until every
	// one of them has finished, they must not call into the hooks of this run
	stable, last := 0, int64(-1)
	for i := 0; i < 200000; i++ {
		st, fin := verifrt.GoCounts()
		if st == fin {
			break
		}
		// goroutines leaked by an earlier execution never finish: accept a count that
		// has not moved for a while
		if st-fin == last {
			stable++
			if stable > 2000 {
				break
			}
		} else {
			stable, last = 0, st-fin
		}
		if i < 1000 {
			runtime.Gosched()
		} else {
			time.Sleep(time.Microsecond)
		}
	}
	r := &run{cur: -1, prefix: prefix, x: &Execution{}, closed: map[uintptr]bool{}, finish: make(chan struct{})}
	install(r)
	defer uninstall()
	for _, b := range bodies {
		r.spawn(b)
	}
	first := r.decide()
	r.cur = first
	r.threads[first].resume <- struct{}{}
	select {
	case <-r.finish:
	case <-time.After(30 * time.Second):
		r.x.Timeout = true
		r.stopped = true
	}
	r.x.NThreads = len(r.threads)
	return r.x
}

// Explorer enumerates schedules.
type Explorer struct {
	Bound   int // max preemptions (-1: unbounded)
	MaxExec int
	// MaxTime: stop exploring (Capped) when this much wall-clock time has been spent on the
	// scenario; 0 = no limit. A cap is reported, never a verdict.
	MaxTime    time.Duration
	started    time.Time
	Executions int
	MaxPoints  int
	Capped     bool
	Deadlocks  int
	Timeouts   int
}

func preemptions(x *Execution, upto int) int {
	n := 0
	for i := 0; i < upto && i < len(x.Points); i++ {
		p := x.Points[i]
		if p.runnable && p.chosen != 0 {
			n++
		}
	}
	return n
}

// Explore calls scenario for every schedule within the bound. scenario(prefix) must
// build fresh state, call Run(prefix, bodies) and return the execution; check is called
// with every execution and returns false to stop the exploration.
func (e *Explorer) Explore(scenario func(prefix []int) *Execution, check func(x *Execution) bool) {
	var dfs func(prefix []int) bool
	dfs = func(prefix []int) bool {
		if e.MaxExec > 0 && e.Executions >= e.MaxExec {
			e.Capped = true
			return false
		}
		if e.MaxTime > 0 {
			if e.started.IsZero() {
				e.started = time.Now()
			} else if time.Since(e.started) > e.MaxTime {
				e.Capped = true
				return false
			}
		}
		x := scenario(prefix)
		e.Executions++
		if len(x.Points) > e.MaxPoints {
			e.MaxPoints = len(x.Points)
		}
		if x.Deadlock {
			e.Deadlocks++
		}
		if x.Timeout {
			e.Timeouts++
		}
		if !check(x) {
			return false
		}
		for i := len(prefix); i < len(x.Points); i++ {
			p := x.Points[i]
			for alt := 1; alt < len(p.enabled); alt++ {
				cost := preemptions(x, i)
				if p.runnable {
					cost++
				}
				if e.Bound >= 0 && cost > e.Bound {
					continue
				}
				np := append(append([]int{}, x.Choices[:i]...), alt)
				if !dfs(np) {
					return false
				}
			}
		}
		return true
	}
	dfs(nil)
}
