// Package fp serialises the complete object graph reachable from a value by
// reading it through reflect (unexported fields included, read-only), so that a
// field added to go-ucfg by a later edit is covered without touching this walker.
// Pointer identity is rendered as first-occurrence ids (aliasing and parent links
// are visible). Mode Exact keeps the ids of dynamic values verbatim (before/after
// comparison of the same object); mode Canon renumbers them by first occurrence
// (state key: equal text <=> isomorphic graphs).
package fp

import (
	"fmt"
	"reflect"
	"regexp"
	"sort"
	"strings"
)

type Mode int

const (
	Exact Mode = iota
	Canon
)

var dynID = regexp.MustCompile(`^[0-9A-F ]{8}-[0-9A-F ]{1,8}-0x[0-9a-f]+$`)

type walker struct {
	sb   strings.Builder
	ptrs map[uintptr]int
	ids  map[string]int
	mode Mode
}

// Of returns the fingerprint of all roots together (shared ids).
func Of(mode Mode, roots ...interface{}) string {
	w := &walker{ptrs: map[uintptr]int{}, ids: map[string]int{}, mode: mode}
	for i, r := range roots {
		if i > 0 {
			w.sb.WriteString(" || ")
		}
		if r == nil {
			w.sb.WriteString("nil")
			continue
		}
		w.walk(reflect.ValueOf(r))
	}
	return w.sb.String()
}

func (w *walker) walk(v reflect.Value) {
	if !v.IsValid() {
		w.sb.WriteString("invalid")
		return
	}
	switch v.Kind() {
	case reflect.Ptr:
		if v.IsNil() {
			w.sb.WriteString("nil")
			return
		}
		p := v.Pointer()
		if id, ok := w.ptrs[p]; ok {
			fmt.Fprintf(&w.sb, "^%d", id)
			return
		}
		id := len(w.ptrs) + 1
		w.ptrs[p] = id
		fmt.Fprintf(&w.sb, "&%d:", id)
		w.walk(v.Elem())
	case reflect.Interface:
		if v.IsNil() {
			w.sb.WriteString("nil")
			return
		}
		e := v.Elem()
		w.sb.WriteString("<" + e.Type().String() + ">")
		w.walk(e)
	case reflect.Struct:
		t := v.Type()
		w.sb.WriteString(t.Name() + "{")
		for i := 0; i < v.NumField(); i++ {
			if i > 0 {
				w.sb.WriteString(" ")
			}
			w.sb.WriteString(t.Field(i).Name + ":")
			w.walk(v.Field(i))
		}
		w.sb.WriteString("}")
	case reflect.Map:
		if v.IsNil() {
			w.sb.WriteString("nilmap")
			return
		}
		type kv struct {
			k string
			v reflect.Value
		}
		var items []kv
		it := v.MapRange()
		for it.Next() {
			sub := &walker{ptrs: w.ptrs, ids: w.ids, mode: w.mode}
			// keys are strings or small scalars in go-ucfg
			items = append(items, kv{fmt.Sprint(keyText(it.Key())), it.Value()})
			_ = sub
		}
		sort.Slice(items, func(i, j int) bool { return items[i].k < items[j].k })
		w.sb.WriteString("map[")
		for i, it := range items {
			if i > 0 {
				w.sb.WriteString(" ")
			}
			w.sb.WriteString(it.k + ":")
			w.walk(it.v)
		}
		w.sb.WriteString("]")
	case reflect.Slice:
		if v.IsNil() {
			w.sb.WriteString("nilslice")
			return
		}
		if w.mode == Exact {
			fmt.Fprintf(&w.sb, "[len=%d cap=%d", v.Len(), v.Cap())
		} else {
			fmt.Fprintf(&w.sb, "[len=%d", v.Len())
		}
		for i := 0; i < v.Len(); i++ {
			w.sb.WriteString(" ")
			w.walk(v.Index(i))
		}
		w.sb.WriteString("]")
	case reflect.Array:
		w.sb.WriteString("[")
		for i := 0; i < v.Len(); i++ {
			if i > 0 {
				w.sb.WriteString(" ")
			}
			w.walk(v.Index(i))
		}
		w.sb.WriteString("]")
	case reflect.String:
		s := v.String()
		if w.mode == Canon && dynID.MatchString(s) {
			id, ok := w.ids[s]
			if !ok {
				id = len(w.ids) + 1
				w.ids[s] = id
			}
			fmt.Fprintf(&w.sb, "dyn#%d", id)
			return
		}
		fmt.Fprintf(&w.sb, "%q", s)
	case reflect.Bool:
		fmt.Fprintf(&w.sb, "%v", v.Bool())
	case reflect.Int, reflect.Int8, reflect.Int16, reflect.Int32, reflect.Int64:
		fmt.Fprintf(&w.sb, "%d", v.Int())
	case reflect.Uint, reflect.Uint8, reflect.Uint16, reflect.Uint32, reflect.Uint64, reflect.Uintptr:
		fmt.Fprintf(&w.sb, "%d", v.Uint())
	case reflect.Float32, reflect.Float64:
		fmt.Fprintf(&w.sb, "%v", v.Float())
	case reflect.Func, reflect.Chan, reflect.UnsafePointer:
		if v.IsNil() {
			w.sb.WriteString("nil")
		} else {
			w.sb.WriteString(v.Kind().String())
		}
	default:
		w.sb.WriteString("?" + v.Kind().String())
	}
}

func keyText(k reflect.Value) string {
	switch k.Kind() {
	case reflect.String:
		return fmt.Sprintf("%q", k.String())
	case reflect.Int, reflect.Int8, reflect.Int16, reflect.Int32, reflect.Int64:
		return fmt.Sprintf("%d", k.Int())
	case reflect.Uint, reflect.Uint8, reflect.Uint16, reflect.Uint32, reflect.Uint64:
		return fmt.Sprintf("%d", k.Uint())
	}
	return fmt.Sprintf("%v", k)
}

// MaxList returns the length of the longest list part (a slice of configuration values,
// i.e. of an interface type) reachable from root, without rendering anything.
func MaxList(root interface{}) int {
	seen := map[uintptr]bool{}
	max := 0
	var walk func(v reflect.Value, depth int)
	walk = func(v reflect.Value, depth int) {
		if !v.IsValid() || depth > 200 {
			return
		}
		switch v.Kind() {
		case reflect.Ptr:
			if v.IsNil() || seen[v.Pointer()] {
				return
			}
			seen[v.Pointer()] = true
			walk(v.Elem(), depth+1)
		case reflect.Interface:
			if !v.IsNil() {
				walk(v.Elem(), depth+1)
			}
		case reflect.Struct:
			for i := 0; i < v.NumField(); i++ {
				walk(v.Field(i), depth+1)
			}
		case reflect.Map:
			it := v.MapRange()
			for it.Next() {
				walk(it.Value(), depth+1)
			}
		case reflect.Slice:
			if v.Type().Elem().Kind() == reflect.Interface && v.Len() > max {
				max = v.Len()
			}
			n := v.Len()
			if n > 4096 {
				n = 4096 // the length is what matters; do not walk millions of padding entries
			}
			for i := 0; i < n; i++ {
				walk(v.Index(i), depth+1)
			}
		}
	}
	walk(reflect.ValueOf(root), 0)
	return max
}
