// Package varexp is the reference model of go-ucfg's ${...} expression language
// (DESIGN.md Appendix A.4): an AST, its printer to concrete syntax, and an
// evaluator with the documented lookup order (tree the setting lives in, from its
// root; Env configs latest first; resolvers latest first), the operators : :+ :?,
// escapes, and cycle detection as re-entry on the current evaluation stack.
package varexp

import (
	"fmt"
	"strings"
)

type Exp interface {
	Render() string
	Depth() int
}

type Lit string
type Ref struct{ Name Exp }
type Op struct {
	Kind      string // ":", ":+", ":?"
	Name, RHS Exp
}
type Cat []Exp

func esc(s string) string {
	s = strings.ReplaceAll(s, "$", "$$")
	s = strings.ReplaceAll(s, "}", "$}")
	return s
}

func (l Lit) Render() string { return esc(string(l)) }
func (r Ref) Render() string { return "${" + r.Name.Render() + "}" }
func (o Op) Render() string  { return "${" + o.Name.Render() + o.Kind + o.RHS.Render() + "}" }
func (c Cat) Render() string {
	s := ""
	for _, e := range c {
		s += e.Render()
	}
	return s
}

func (l Lit) Depth() int { return 0 }
func (r Ref) Depth() int { return 1 + r.Name.Depth() }
func (o Op) Depth() int {
	d := o.Name.Depth()
	if x := o.RHS.Depth(); x > d {
		d = x
	}
	return 1 + d
}
func (c Cat) Depth() int {
	d := 0
	for _, e := range c {
		if x := e.Depth(); x > d {
			d = x
		}
	}
	return d
}

// Value of a setting in a layer: a plain value (string, int64, bool, map, slice) or
// an expression (string setting with references).
type Setting struct {
	Plain interface{}
	Expr  Exp      // non-nil: the setting's text is Expr.Render()
	Group []string // non-nil: the setting is an object; names (full dotted) of its members
}

// Layer maps dotted names to settings (a flat view of a config tree; a name is
// set in the layer iff present with a non-nil value).
type Layer map[string]Setting

type Env struct {
	Root      Layer
	Envs      []Layer
	Resolvers []map[string]string
}

type Kind int

const (
	Value Kind = iota
	Missing
	Cyclic
	UserErr
	Undefined
)

func (k Kind) String() string {
	return [...]string{"value", "missing", "cyclic", "usererr", "undefined"}[k]
}

type Outcome struct {
	Kind  Kind
	Str   string      // text form (Value), message (UserErr)
	Typed interface{} // the referenced value itself for a setting that is exactly one reference
	Group bool        // the value is an object of the configuration (its text form is not defined)
	// TouchedGroup: the evaluation went through an object reference somewhere (which
	// read entries consume only partially). Absorbed: a cyclic outcome was absorbed by a
	// default operator or a resolver somewhere, which makes the value depend on where
	// the cycle was entered (not fixed by the statement).
	TouchedGroup bool
	Absorbed     bool
}

func val(s string) Outcome { return Outcome{Kind: Value, Str: s} }

type evaluator struct {
	env          *Env
	steps        int
	touchedGroup bool
	absorbed     bool
}

// Eval evaluates the text of a setting that lives in env.Root.
func Eval(env *Env, e Exp) Outcome {
	ev := &evaluator{env: env}
	o := ev.evalSetting(env.Root, e, nil)
	o.TouchedGroup, o.Absorbed = ev.touchedGroup, ev.absorbed
	return o
}

// evalSetting: a setting that is exactly ${N} takes the referenced value with its type.
func (ev *evaluator) evalSetting(home Layer, e Exp, stack []string) Outcome {
	if r, ok := e.(Ref); ok {
		n := ev.eval(home, r.Name, stack)
		if n.Kind != Value {
			return n
		}
		return ev.deref(home, n.Str, stack, true)
	}
	return ev.eval(home, e, stack)
}

// stackKey: a reference is identified by its name and the tree it is written in (the same name
// in the configuration and in an Env configuration are two different settings).
func stackKey(home Layer, name string) string {
	return fmt.Sprintf("%p/%s", home, name)
}

func inStack(stack []string, n string) bool {
	for _, s := range stack {
		if s == n {
			return true
		}
	}
	return false
}

// deref resolves name: lookup order home (root of the tree the setting lives in), Envs
// latest first, resolvers latest first. typed: keep the value's type.
func (ev *evaluator) deref(home Layer, name string, stack []string, typed bool) Outcome {
	ev.steps++
	if ev.steps > 100000 {
		return Outcome{Kind: Undefined}
	}
	if name == "" {
		return Outcome{Kind: Undefined}
	}
	if inStack(stack, stackKey(home, name)) {
		return ev.resolverOr(name, Outcome{Kind: Cyclic, Str: name})
	}
	stack = append(append([]string{}, stack...), stackKey(home, name))
	layers := append([]Layer{home}, reverse(ev.env.Envs)...)
	for _, l := range layers {
		s, ok := l[name]
		if !ok || (s.Plain == nil && s.Expr == nil && s.Group == nil) {
			continue
		}
		if s.Group != nil {
			ev.touchedGroup = true
			if !typed {
				return Outcome{Kind: Undefined} // text form of an object
			}
			// consuming an object evaluates its members
			for _, m := range s.Group {
				ms := l[m]
				var o Outcome
				switch {
				case ms.Expr != nil:
					o = ev.evalSetting(l, ms.Expr, stack)
				case ms.Group != nil:
					o = ev.deref(l, m, stack, true)
				default:
					continue
				}
				if o.Kind != Value {
					return o
				}
			}
			return Outcome{Kind: Value, Group: true}
		}
		if s.Expr != nil {
			// a setting of an Env config is evaluated in its own tree
			return ev.evalSetting(l, s.Expr, stack)
		}
		if typed {
			return Outcome{Kind: Value, Str: fmt.Sprint(s.Plain), Typed: s.Plain}
		}
		switch s.Plain.(type) {
		case map[string]interface{}, []interface{}:
			return Outcome{Kind: Undefined} // text form of a container is not defined by the statement
		}
		return val(fmt.Sprint(s.Plain))
	}
	return ev.resolverOr(name, Outcome{Kind: Missing, Str: name})
}

// existsAsExpr: some layer holds name as a setting that needs evaluation.
func (ev *evaluator) existsAsExpr(home Layer, name string) bool {
	for _, l := range append([]Layer{home}, reverse(ev.env.Envs)...) {
		if s, ok := l[name]; ok && (s.Plain != nil || s.Expr != nil || s.Group != nil) {
			return s.Expr != nil
		}
	}
	return false
}

// resolverOr: a resolver that knows the name absorbs a missing/cyclic outcome.
func (ev *evaluator) resolverOr(name string, o Outcome) Outcome {
	for i := len(ev.env.Resolvers) - 1; i >= 0; i-- {
		if v, ok := ev.env.Resolvers[i][name]; ok {
			if o.Kind == Cyclic {
				ev.absorbed = true
			}
			return val(v)
		}
	}
	return o
}

func reverse(l []Layer) []Layer {
	out := make([]Layer, len(l))
	for i, x := range l {
		out[len(l)-1-i] = x
	}
	return out
}

func (ev *evaluator) eval(home Layer, x Exp, stack []string) Outcome {
	switch t := x.(type) {
	case Lit:
		return val(string(t))
	case Cat:
		s := ""
		for _, p := range t {
			o := ev.eval(home, p, stack)
			if o.Kind != Value {
				return o
			}
			s += o.Str
		}
		return val(s)
	case Ref:
		n := ev.eval(home, t.Name, stack)
		if n.Kind != Value {
			return n
		}
		o := ev.deref(home, n.Str, stack, false)
		if o.Kind == Value && o.Group {
			return Outcome{Kind: Undefined} // text form of an object
		}
		return o
	case Op:
		n := ev.eval(home, t.Name, stack)
		if n.Kind == Undefined {
			return n
		}
		var o Outcome
		if t.Kind == ":+" && n.Kind == Value && n.Str != "" && inStack(stack, stackKey(home, n.Str)) {
			// the setting asked about is being evaluated right now: it is set
			return ev.eval(home, t.RHS, stack)
		}
		if n.Kind == Value && n.Str != "" {
			o = ev.deref(home, n.Str, stack, false)
			if o.Kind == Undefined || (o.Kind == Value && o.Group) {
				return Outcome{Kind: Undefined}
			}
		} else {
			if n.Kind == Cyclic {
				ev.absorbed = true
			}
			o = Outcome{Kind: Missing}
		}
		if o.Kind == Cyclic {
			ev.absorbed = true // every operator absorbs a failed lookup
		}
		set := o.Kind == Value
		switch t.Kind {
		case ":":
			if !set || o.Str == "" {
				return ev.eval(home, t.RHS, stack)
			}
			return o
		case ":+":
			if !set {
				if n.Kind == Value && n.Str != "" && !inStack(stack, stackKey(home, n.Str)) && ev.existsAsExpr(home, n.Str) {
					// the setting exists but its own evaluation fails: whether that counts
					// as "set" is not defined by the statement
					return Outcome{Kind: Undefined}
				}
				return val("")
			}
			if o.Str == "" {
				return Outcome{Kind: Undefined}
			}
			return ev.eval(home, t.RHS, stack)
		case ":?":
			if set && o.Str != "" {
				return o
			}
			m := ev.eval(home, t.RHS, stack)
			if m.Kind != Value {
				return m
			}
			return Outcome{Kind: UserErr, Str: m.Str}
		}
	}
	panic("varexp: unknown expression")
}

// Refs returns the literal names referenced anywhere in e.
func Refs(e Exp) []string {
	var out []string
	var walk func(e Exp)
	walk = func(e Exp) {
		switch t := e.(type) {
		case Ref:
			if l, ok := t.Name.(Lit); ok {
				out = append(out, string(l))
			}
			walk(t.Name)
		case Op:
			if l, ok := t.Name.(Lit); ok {
				out = append(out, string(l))
			}
			walk(t.Name)
			walk(t.RHS)
		case Cat:
			for _, p := range t {
				walk(p)
			}
		}
	}
	walk(e)
	return out
}
