// Package choice is the stateless explorer of runtime choices (map iteration
// orders): run(prefix) re-executes a scenario answering the first len(prefix)
// choice points from the prefix and 0 (sorted order) afterwards; the DFS branches
// on every later point within the deviation bound (CHESS-style iterative bounding,
// the deviation being "a map is enumerated in another order than sorted").
package choice

import (
	"fmt"
	"sort"

	"github.com/elastic/go-ucfg/verifrt"
)

type point struct {
	site int
	n    int
}

// Explorer explores one scenario.
type Explorer struct {
	Bound      int // max number of deviating choice points
	FullBudget int // explore the full product when it is at most this many executions
	MaxExec    int // hard cap on executions (reported)

	Executions int
	Points     int              // choice points hit (over all executions)
	MaxPoints  int              // max choice points in one execution
	Outcomes   map[string][]int // outcome -> choice vector of its first occurrence
	Full       bool             // the complete product was explored
	Capped     bool
	Sites      map[int]int
}

func numPerms(n int) int {
	if n <= 5 {
		f := 1
		for i := 2; i <= n; i++ {
			f *= i
		}
		return f
	}
	return n + 2 // identity, n-1 rotations, reversal, swap of the first two
}

// perm returns the k-th permutation of 0..n-1 (k=0 is the identity).
func perm(n, k int) []int {
	p := make([]int, n)
	for i := range p {
		p[i] = i
	}
	if k == 0 {
		return p
	}
	if n <= 5 {
		// factorial number system
		avail := append([]int{}, p...)
		out := make([]int, 0, n)
		f := numPerms(n)
		for i := n; i >= 1; i-- {
			f /= i
			idx := k / f
			k %= f
			out = append(out, avail[idx])
			avail = append(avail[:idx], avail[idx+1:]...)
		}
		return out
	}
	switch {
	case k < n: // rotation by k
		for i := range p {
			p[i] = (i + k) % n
		}
	case k == n: // reversal
		for i := range p {
			p[i] = n - 1 - i
		}
	default:
		p[0], p[1] = 1, 0
	}
	return p
}

type execution struct {
	points  []point
	choices []int
	outcome string
}

func (e *Explorer) run(prefix []int, scenario func() string) execution {
	var x execution
	verifrt.OrderHook = func(site, n int) []int {
		k := len(x.points)
		x.points = append(x.points, point{site, n})
		c := 0
		if k < len(prefix) {
			c = prefix[k]
			if c >= numPerms(n) {
				panic(fmt.Sprintf("choice: replay diverged: choice %d out of range at point %d (site %d, %d keys)", c, k, site, n))
			}
		}
		x.choices = append(x.choices, c)
		if c == 0 {
			return nil
		}
		return perm(n, c)
	}
	defer func() { verifrt.OrderHook = nil }()
	x.outcome = scenario()
	e.Executions++
	e.Points += len(x.points)
	if len(x.points) > e.MaxPoints {
		e.MaxPoints = len(x.points)
	}
	for _, p := range x.points {
		e.Sites[p.site]++
	}
	if _, ok := e.Outcomes[x.outcome]; !ok {
		e.Outcomes[x.outcome] = append([]int{}, x.choices...)
	}
	return x
}

func deviations(c []int) int {
	d := 0
	for _, x := range c {
		if x != 0 {
			d++
		}
	}
	return d
}

// Explore runs the scenario under every choice vector within the bound (or the whole
// product when small). scenario must be deterministic given the choices.
func (e *Explorer) Explore(scenario func() string) {
	e.Outcomes = map[string][]int{}
	e.Sites = map[int]int{}
	x0 := e.run(nil, scenario)
	product := 1
	for _, p := range x0.points {
		product *= numPerms(p.n)
		if product > e.FullBudget {
			break
		}
	}
	bound := e.Bound
	if product <= e.FullBudget {
		bound = 1 << 30
		e.Full = true
	}
	var dfs func(x execution, from int)
	dfs = func(x execution, from int) {
		for i := from; i < len(x.points); i++ {
			if deviations(x.choices[:i])+1 > bound {
				break
			}
			for alt := 1; alt < numPerms(x.points[i].n); alt++ {
				if e.MaxExec > 0 && e.Executions >= e.MaxExec {
					e.Capped = true
					e.Full = false
					return
				}
				prefix := append(append([]int{}, x.choices[:i]...), alt)
				y := e.run(prefix, scenario)
				dfs(y, i+1)
			}
		}
	}
	dfs(x0, 0)
}

// Replay runs the scenario once under a recorded choice vector.
func Replay(choices []int, scenario func() string) string {
	e := &Explorer{Outcomes: map[string][]int{}, Sites: map[int]int{}}
	return e.run(choices, scenario).outcome
}

// OutcomeList returns the distinct outcomes, sorted.
func (e *Explorer) OutcomeList() []string {
	var out []string
	for o := range e.Outcomes {
		out = append(out, o)
	}
	sort.Strings(out)
	return out
}
