package tree

import (
	"fmt"
	"strconv"
	"strings"
)

// Seg is a path segment: index (Idx>=0) or name.
type Seg struct {
	Name string
	Idx  int
	IsIx bool
}

func IsIndex(s string, maxIdx int64) (int, bool) {
	v, err := strconv.ParseInt(s, 0, 64)
	if err == nil && v >= 0 && v <= maxIdx {
		return int(v), true
	}
	return 0, false
}

// ParseAddr mirrors the documented addressing: name split by sep (if any), numeric segments are indices, idx>=0 appended.
func ParseAddr(name string, idx int, sep string) []Seg {
	var segs []Seg
	if name != "" {
		parts := []string{name}
		if sep != "" {
			parts = strings.Split(name, sep)
		}
		for _, p := range parts {
			if i, ok := IsIndex(p, 1024); ok {
				segs = append(segs, Seg{Idx: i, IsIx: true})
			} else {
				segs = append(segs, Seg{Name: p})
			}
		}
		if idx >= 0 {
			segs = append(segs, Seg{Idx: idx, IsIx: true})
		}
		return segs
	}
	return []Seg{{Idx: idx, IsIx: true}}
}

type Res int

const (
	OK Res = iota
	Missing
	Err
)

// step returns child of n at seg. (nil,Missing) if absent.
func step(n *Node, s Seg) (*Node, Res) {
	if s.IsIx {
		if n.K == Leaf {
			if s.Idx == 0 {
				return n, OK
			}
			return nil, Err
		}
		if n.K == Nil || s.Idx >= len(n.A) {
			return nil, Missing
		}
		return n.A[s.Idx], OK
	}
	if n.K == Leaf {
		return nil, Err
	}
	if n.K == Nil {
		return nil, Missing
	}
	c, ok := n.D[s.Name]
	if !ok {
		return nil, Missing
	}
	return c, OK
}

func Get(root *Node, segs []Seg) (*Node, Res) {
	cur := root
	for _, s := range segs {
		nx, r := step(cur, s)
		if r != OK {
			return nil, r
		}
		cur = nx
	}
	return cur, OK
}

func setChild(n *Node, s Seg, v *Node) {
	if s.IsIx {
		for len(n.A) <= s.Idx {
			n.A = append(n.A, NilN())
		}
		n.A[s.Idx] = v
		n.HasA = true
		return
	}
	if n.D == nil {
		n.D = map[string]*Node{}
	}
	n.D[s.Name] = v
}

// Set stores v at segs; returns false (and leaves root unchanged) when a primitive is in the way.
func Set(root *Node, segs []Seg, v *Node) bool {
	cur := root
	i := 0
	for ; i < len(segs)-1; i++ {
		nx, r := step(cur, segs[i])
		if r == Err {
			return false
		}
		if r == Missing || nx.K == Nil {
			break
		}
		cur = nx
	}
	if cur.K == Leaf {
		return false
	}
	// build the rest bottom-up
	val := v
	for j := len(segs) - 1; j > i; j-- {
		c := &Node{K: Cont}
		setChild(c, segs[j], val)
		val = c
	}
	setChild(cur, segs[i], val)
	return true
}

// Remove: (removed, ok)
func Remove(root *Node, segs []Seg) (bool, bool) {
	cur := root
	for _, s := range segs[:len(segs)-1] {
		nx, r := step(cur, s)
		if r == Missing {
			return false, true
		}
		if r == Err {
			return false, false
		}
		cur = nx
	}
	last := segs[len(segs)-1]
	if cur.K == Leaf {
		return false, false
	}
	if cur.K == Nil {
		return false, true
	}
	if last.IsIx {
		if last.Idx >= len(cur.A) {
			return false, true
		}
		cur.A = append(cur.A[:last.Idx], cur.A[last.Idx+1:]...)
		return true, true
	}
	if _, ok := cur.D[last.Name]; !ok {
		return false, true
	}
	delete(cur.D, last.Name)
	return true, true
}

func (s Seg) String() string {
	if s.IsIx {
		return fmt.Sprint(s.Idx)
	}
	return s.Name
}
