package tree

import (
	"fmt"
	"sort"
	"strconv"
	"strings"
)

// Seg is a path segment: index (Idx>=0) or name.
type Seg struct {
	Name string
	Idx  int
	IsIx bool
}

func IsIndex(s string, maxIdx int64) (int, bool) {
	v, err := strconv.ParseInt(s, 0, 64)
	if err == nil && v >= 0 && v <= maxIdx {
		return int(v), true
	}
	return 0, false
}

// ParseAddr mirrors the documented addressing: name split by sep (if any), numeric segments are indices, idx>=0 appended.
func ParseAddr(name string, idx int, sep string) []Seg {
	return ParseAddrOpts(name, idx, sep, 1024, false)
}

// ParseAddrOpts is ParseAddr with MaxIdx and EnableNumKeys (which only applies to single-segment names).
func ParseAddrOpts(name string, idx int, sep string, maxIdx int64, numKeys bool) []Seg {
	var segs []Seg
	if name != "" {
		parts := []string{name}
		if sep != "" {
			parts = strings.Split(name, sep)
		}
		if len(parts) > 1 {
			numKeys = false
		}
		for _, p := range parts {
			if i, ok := IsIndex(p, maxIdx); ok && !numKeys {
				segs = append(segs, Seg{Idx: i, IsIx: true})
			} else {
				segs = append(segs, Seg{Name: p})
			}
		}
		if idx >= 0 {
			segs = append(segs, Seg{Idx: idx, IsIx: true})
		}
		return segs
	}
	return []Seg{{Idx: idx, IsIx: true}}
}

type Res int

const (
	OK Res = iota
	Missing
	Err
)

// step returns child of n at seg. (nil,Missing) if absent.
func step(n *Node, s Seg) (*Node, Res) {
	if s.IsIx {
		if n.K == Leaf {
			if s.Idx == 0 {
				return n, OK
			}
			return nil, Err
		}
		if n.K == Nil || s.Idx >= len(n.A) {
			return nil, Missing
		}
		return n.A[s.Idx], OK
	}
	if n.K == Leaf {
		return nil, Err
	}
	if n.K == Nil {
		return nil, Missing
	}
	c, ok := n.D[s.Name]
	if !ok {
		return nil, Missing
	}
	return c, OK
}

func Get(root *Node, segs []Seg) (*Node, Res) {
	cur := root
	for _, s := range segs {
		nx, r := step(cur, s)
		if r != OK {
			return nil, r
		}
		cur = nx
	}
	return cur, OK
}

func setChild(n *Node, s Seg, v *Node) {
	if s.IsIx {
		for len(n.A) <= s.Idx {
			n.A = append(n.A, NilN())
		}
		n.A[s.Idx] = v
		n.HasA = true
		return
	}
	if n.D == nil {
		n.D = map[string]*Node{}
	}
	n.D[s.Name] = v
}

// Set stores v at segs; returns false (and leaves root unchanged) when a primitive is in the way.
func Set(root *Node, segs []Seg, v *Node) bool {
	// an index above the default MaxIdx is rejected before anything is written
	// (indices inside names never exceed it: such segments are names)
	for _, sg := range segs {
		if sg.IsIx && sg.Idx > 1024 {
			return false
		}
	}
	cur := root
	i := 0
	for ; i < len(segs)-1; i++ {
		nx, r := step(cur, segs[i])
		if r == Err {
			return false
		}
		if r == Missing || nx.K == Nil {
			break
		}
		cur = nx
	}
	if cur.K == Leaf {
		return false
	}
	// build the rest bottom-up
	val := v
	for j := len(segs) - 1; j > i; j-- {
		c := &Node{K: Cont}
		setChild(c, segs[j], val)
		val = c
	}
	setChild(cur, segs[i], val)
	return true
}

// Remove: (removed, ok)
func Remove(root *Node, segs []Seg) (bool, bool) {
	cur := root
	for _, s := range segs[:len(segs)-1] {
		nx, r := step(cur, s)
		if r == Missing {
			return false, true
		}
		if r == Err {
			return false, false
		}
		cur = nx
	}
	last := segs[len(segs)-1]
	if cur.K == Leaf {
		return false, false
	}
	if cur.K == Nil {
		return false, true
	}
	if last.IsIx {
		if last.Idx >= len(cur.A) {
			return false, true
		}
		cur.A = append(cur.A[:last.Idx], cur.A[last.Idx+1:]...)
		return true, true
	}
	if _, ok := cur.D[last.Name]; !ok {
		return false, true
	}
	delete(cur.D, last.Name)
	return true, true
}

func (s Seg) String() string {
	if s.IsIx {
		return fmt.Sprint(s.Idx)
	}
	return s.Name
}

// New returns the model of an empty config (neither dict nor list yet).
func New() *Node { return &Node{K: Cont} }

// IsDict / IsArray: a node is a dict once it has had a key, a list once it has had an element.
func (n *Node) IsDict() bool  { return n.K == Cont && n.D != nil }
func (n *Node) IsArray() bool { return n.K == Cont && (n.HasA || n.A != nil) }

// Count mirrors CountField for a direct field name ("" = the node itself).
func (n *Node) Count(name string) (int, bool) {
	if name == "" {
		return len(n.A) + len(n.D), true
	}
	c, ok := n.D[name]
	if !ok {
		return 0, false
	}
	switch c.K {
	case Nil:
		return 0, true
	case Leaf:
		return 1, true
	}
	if c.IsArray() {
		return len(c.A), true
	}
	return 1, true
}

// Mixed reports whether some node below n has (or had) both a dict and a list part.
func (n *Node) Mixed() bool {
	if n == nil || n.K != Cont {
		return false
	}
	if n.D != nil && (n.HasA || n.A != nil) {
		return true
	}
	for _, v := range n.D {
		if v.Mixed() {
			return true
		}
	}
	for _, e := range n.A {
		if e.Mixed() {
			return true
		}
	}
	return false
}

// LeafPaths returns the root-relative dotted paths of all non-nil primitive leaves below n,
// whose own root-relative path is prefix.
func (n *Node) LeafPaths(prefix string) []string {
	var out []string
	var walk func(n *Node, p string)
	join := func(p, s string) string {
		if p == "" {
			return s
		}
		return p + "." + s
	}
	walk = func(n *Node, p string) {
		switch n.K {
		case Leaf:
			out = append(out, p)
		case Cont:
			keys := make([]string, 0, len(n.D))
			for k := range n.D {
				keys = append(keys, k)
			}
			sort.Strings(keys)
			for _, k := range keys {
				walk(n.D[k], join(p, k))
			}
			for i, e := range n.A {
				walk(e, join(p, strconv.Itoa(i)))
			}
		}
	}
	walk(n, prefix)
	sort.Strings(out)
	return out
}
