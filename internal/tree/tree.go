// Package tree: boring reference model of a go-ucfg configuration tree.
package tree

import (
	"fmt"
	"math"
	"sort"
	"strconv"
	"strings"
)

type Kind int

const (
	Nil Kind = iota
	Leaf
	Cont
)

type Node struct {
	K    Kind
	V    interface{} // leaf payload
	D    map[string]*Node
	A    []*Node
	HasA bool // list part present (even if empty)
}

func NilN() *Node               { return &Node{K: Nil} }
func LeafN(v interface{}) *Node { return &Node{K: Leaf, V: v} }
func Dict(kv ...interface{}) *Node {
	n := &Node{K: Cont, D: map[string]*Node{}}
	for i := 0; i < len(kv); i += 2 {
		n.D[kv[i].(string)] = kv[i+1].(*Node)
	}
	return n
}
func List(el ...*Node) *Node { return &Node{K: Cont, A: append([]*Node{}, el...), HasA: true} }

func (n *Node) Clone() *Node {
	if n == nil {
		return nil
	}
	c := &Node{K: n.K, V: n.V, HasA: n.HasA}
	if n.D != nil {
		c.D = map[string]*Node{}
		for k, v := range n.D {
			c.D[k] = v.Clone()
		}
	}
	for _, e := range n.A {
		c.A = append(c.A, e.Clone())
	}
	return c
}

// ToGo renders as generic Go input (map[string]interface{}, []interface{}, leaves).
func (n *Node) ToGo() interface{} {
	switch n.K {
	case Nil:
		return nil
	case Leaf:
		return n.V
	}
	if n.HasA && len(n.D) == 0 {
		out := make([]interface{}, len(n.A))
		for i, e := range n.A {
			out[i] = e.ToGo()
		}
		return out
	}
	m := map[string]interface{}{}
	for k, v := range n.D {
		m[k] = v.ToGo()
	}
	for i, e := range n.A {
		m[strconv.Itoa(i)] = e.ToGo()
	}
	return m
}

// Generic returns the value Unpack into interface{} is expected to produce for
// this tree: nil for Nil and for a container with no keys and no list part, a
// slice for a pure list, a map for a dict, and a map with decimal index keys for
// a node that carries both parts.
func (n *Node) Generic() interface{} {
	switch n.K {
	case Nil:
		return nil
	case Leaf:
		return n.V
	}
	switch {
	case len(n.D) == 0 && len(n.A) == 0:
		if n.HasA {
			return []interface{}{}
		}
		return nil
	case len(n.D) == 0:
		out := make([]interface{}, len(n.A))
		for i, e := range n.A {
			out[i] = e.Generic()
		}
		return out
	}
	m := map[string]interface{}{}
	for k, v := range n.D {
		m[k] = v.Generic()
	}
	for i, e := range n.A {
		m[strconv.Itoa(i)] = e.Generic()
	}
	return m
}

// Canon is the canonical text of the generic view, computed bottom-up: "~" is nil,
// an absent key, a dict all of whose values are "~" and (EmptyListIsNil) an empty
// list; dicts print only their non-"~" entries, sorted; lists keep every position;
// numbers print by value.
func (n *Node) Canon() string { return CanonGo(n.Generic()) }

// CanonKeepEmptyList distinguishes an empty list from nil.
func (n *Node) CanonKeepEmptyList() string { return CanonGoOpt(n.Generic(), true) }

// CanonGo computes the canonical text from Unpack output (empty list == nil).
func CanonGo(v interface{}) string { return CanonGoOpt(v, false) }

func CanonGoOpt(v interface{}, keepEmptyList bool) string {
	var sb strings.Builder
	canonGo(v, &sb, keepEmptyList)
	return sb.String()
}

func canonGo(v interface{}, sb *strings.Builder, keepEmptyList bool) {
	switch x := v.(type) {
	case nil:
		sb.WriteString("~")
	case map[string]interface{}:
		keys := make([]string, 0, len(x))
		for k := range x {
			keys = append(keys, k)
		}
		sort.Strings(keys)
		first := true
		for _, k := range keys {
			var cs strings.Builder
			canonGo(x[k], &cs, keepEmptyList)
			if cs.String() == "~" {
				continue
			}
			if first {
				sb.WriteString("{")
				first = false
			} else {
				sb.WriteString(",")
			}
			sb.WriteString(k + ":")
			sb.WriteString(cs.String())
		}
		if first {
			sb.WriteString("~")
		} else {
			sb.WriteString("}")
		}
	case []interface{}:
		if len(x) == 0 && !keepEmptyList {
			sb.WriteString("~")
			return
		}
		sb.WriteString("[")
		for i, e := range x {
			if i > 0 {
				sb.WriteString(",")
			}
			canonGo(e, sb, keepEmptyList)
		}
		sb.WriteString("]")
	case string:
		sb.WriteString(strconv.Quote(x))
	case bool:
		fmt.Fprintf(sb, "%v", x)
	case int:
		fmt.Fprintf(sb, "%d", x)
	case int64:
		fmt.Fprintf(sb, "%d", x)
	case uint64:
		fmt.Fprintf(sb, "%d", x)
	case float64:
		if x == float64(int64(x)) && x > -1e15 && x < 1e15 {
			fmt.Fprintf(sb, "%d", int64(x))
		} else if x == math.Trunc(x) && math.Abs(x) < 1e30 {
			// an integral float prints like the integer of the same value
			sb.WriteString(strconv.FormatFloat(x, 'f', 0, 64))
		} else {
			fmt.Fprintf(sb, "%v", x)
		}
	default:
		fmt.Fprintf(sb, "%v", x)
	}
}

type Policy int

const (
	Default Policy = iota
	Replace
	ReplaceArr
	Append
	Prepend
)

func contLike(n *Node) bool { return n != nil && (n.K == Cont || n.K == Nil) }

func asCont(n *Node) *Node {
	if n.K == Nil {
		return &Node{K: Cont}
	}
	return n
}

// PolicyFn gives the policy in force at the node with the given path.
type PolicyFn func(path []string) Policy

func Const(p Policy) PolicyFn { return func([]string) Policy { return p } }

// Merge returns merge of b into a (a is not modified) under one global policy.
func Merge(p Policy, a, b *Node) *Node { return MergeAt(Const(p), nil, a, b) }

// MergeAt merges b into a copy of a; the policy at every node is pf(path of the node).
func MergeAt(pf PolicyFn, path []string, a, b *Node) *Node {
	p := pf(path)
	a = asCont(a.Clone())
	b = asCont(b)
	// dict part
	if len(b.D) > 0 {
		if p == Replace {
			a.D = nil
		}
		if a.D == nil {
			a.D = map[string]*Node{}
		}
		for k, bv := range b.D {
			a.D[k] = mergeValue(pf, append(append([]string{}, path...), k), a.D[k], bv)
		}
	}
	// list part
	switch p {
	case Replace, ReplaceArr:
		if len(b.A) > 0 {
			a.A = cloneList(b.A)
			a.HasA = true
		}
	case Append:
		if len(b.A) > 0 {
			a.A = append(a.A, cloneList(b.A)...)
			a.HasA = true
		}
	case Prepend:
		if len(b.A) > 0 {
			a.A = append(cloneList(b.A), a.A...)
			a.HasA = true
		}
	default:
		for i, bv := range b.A {
			if i < len(a.A) {
				a.A[i] = mergeValue(pf, append(append([]string{}, path...), strconv.Itoa(i)), a.A[i], bv)
			} else {
				a.A = append(a.A, bv.Clone())
			}
		}
		if len(b.A) > 0 {
			a.HasA = true
		}
	}
	return a
}

func cloneList(l []*Node) []*Node {
	out := make([]*Node, len(l))
	for i, e := range l {
		out[i] = e.Clone()
	}
	return out
}

func mergeValue(pf PolicyFn, path []string, old, nw *Node) *Node {
	if old == nil {
		return nw.Clone()
	}
	if contLike(old) && contLike(nw) {
		return MergeAt(pf, path, old, nw)
	}
	return nw.Clone()
}

func (p Policy) String() string {
	return [...]string{"default", "replace", "replacearr", "append", "prepend"}[p]
}

// String renders the tree as compact text: ~ nil, {k:v,...}, [v,...], mixed {k:v;[..]}.
func (n *Node) String() string {
	var sb strings.Builder
	n.text(&sb)
	return sb.String()
}

func (n *Node) text(sb *strings.Builder) {
	switch n.K {
	case Nil:
		sb.WriteString("~")
		return
	case Leaf:
		fmt.Fprintf(sb, "%v", n.V)
		if _, ok := n.V.(string); !ok {
			fmt.Fprintf(sb, "(%T)", n.V)
		}
		return
	}
	writeList := func() {
		sb.WriteString("[")
		for i, e := range n.A {
			if i > 0 {
				sb.WriteString(",")
			}
			e.text(sb)
		}
		sb.WriteString("]")
	}
	if n.HasA && len(n.D) == 0 {
		writeList()
		return
	}
	keys := make([]string, 0, len(n.D))
	for k := range n.D {
		keys = append(keys, k)
	}
	sort.Strings(keys)
	sb.WriteString("{")
	for i, k := range keys {
		if i > 0 {
			sb.WriteString(",")
		}
		sb.WriteString(k + ":")
		n.D[k].text(sb)
	}
	if n.HasA {
		sb.WriteString(";")
		writeList()
	}
	sb.WriteString("}")
}

// Leaves returns the number of leaves (non-nil primitives).
func (n *Node) Leaves() int {
	if n == nil {
		return 0
	}
	if n.K == Leaf {
		return 1
	}
	c := 0
	for _, v := range n.D {
		c += v.Leaves()
	}
	for _, e := range n.A {
		c += e.Leaves()
	}
	return c
}

// Depth of the tree (leaf = 0).
func (n *Node) Depth() int {
	if n == nil || n.K != Cont {
		return 0
	}
	d := 0
	for _, v := range n.D {
		if x := v.Depth(); x > d {
			d = x
		}
	}
	for _, e := range n.A {
		if x := e.Depth(); x > d {
			d = x
		}
	}
	return d + 1
}

// Enumerate all trees of depth<=d over keys, list length<=maxL, leaves nil or "L".
func Enum(d int, keys []string, maxL int) []*Node {
	leaves := []*Node{NilN(), LeafN("L")}
	if d == 0 {
		return leaves
	}
	sub := Enum(d-1, keys, maxL)
	out := append([]*Node{}, leaves...)
	// dicts
	var rec func(i int, cur map[string]*Node)
	rec = func(i int, cur map[string]*Node) {
		if i == len(keys) {
			n := &Node{K: Cont, D: map[string]*Node{}}
			for k, v := range cur {
				n.D[k] = v
			}
			out = append(out, n)
			return
		}
		rec(i+1, cur)
		for _, s := range sub {
			cur[keys[i]] = s
			rec(i+1, cur)
			delete(cur, keys[i])
		}
	}
	rec(0, map[string]*Node{})
	// lists (len>=1; empty dict above doubles as empty container; add explicit empty list)
	out = append(out, List())
	var recl func(cur []*Node)
	recl = func(cur []*Node) {
		if len(cur) > 0 {
			out = append(out, List(cur...))
		}
		if len(cur) == maxL {
			return
		}
		for _, s := range sub {
			recl(append(append([]*Node{}, cur...), s))
		}
	}
	recl(nil)
	return out
}

// Label gives every leaf a unique label with prefix.
func Label(n *Node, prefix string) *Node {
	c := n.Clone()
	i := 0
	var walk func(n *Node)
	walk = func(n *Node) {
		if n.K == Leaf {
			n.V = fmt.Sprintf("%s%d", prefix, i)
			i++
			return
		}
		keys := []string{}
		for k := range n.D {
			keys = append(keys, k)
		}
		sort.Strings(keys)
		for _, k := range keys {
			walk(n.D[k])
		}
		for _, e := range n.A {
			walk(e)
		}
	}
	walk(c)
	return c
}

// FromGo builds a Node from generic Go data (maps with string keys, slices, nil, leaves).
func FromGo(v interface{}) *Node {
	switch x := v.(type) {
	case nil:
		return NilN()
	case map[string]interface{}:
		n := &Node{K: Cont, D: map[string]*Node{}}
		for k, e := range x {
			n.D[k] = FromGo(e)
		}
		return n
	case []interface{}:
		n := &Node{K: Cont, HasA: true}
		for _, e := range x {
			n.A = append(n.A, FromGo(e))
		}
		return n
	}
	return LeafN(v)
}
