// Package flagsyn is the reference recursive-descent parser of the flag value
// grammar of go-ucfg/parse, parameterised by the five switches of parse.Config.
// It encodes the documented meaning of each switch: a disabled '[' '{' or quote
// character is an ordinary character of an unquoted string, IgnoreCommas removes
// the top-level comma list. It is written against the grammar, cursor based, and
// shares no code with the implementation.
package flagsyn

import (
	"errors"
	"strconv"
	"strings"
	"unicode"
)

type Config struct {
	Array, Object, DQuote, SQuote, IgnoreCommas bool
}

var ErrSyntax = errors.New("syntax error")

type parser struct {
	s   string
	pos int
	cfg Config
}

func (p *parser) eof() bool { return p.pos >= len(p.s) }

func (p *parser) skipWS() {
	for !p.eof() {
		r, n := decodeRune(p.s[p.pos:])
		if !unicode.IsSpace(r) {
			return
		}
		p.pos += n
	}
}

func decodeRune(s string) (rune, int) {
	for i, r := range s {
		_ = i
		return r, len(string(r))
	}
	return 0, 0
}

// Parse returns the value of text under cfg. ok=false: the text is not in the language.
func Parse(text string, cfg Config) (v interface{}, ok bool) {
	defer func() {
		if r := recover(); r != nil {
			if r == ErrSyntax {
				v, ok = nil, false
				return
			}
			panic(r)
		}
	}()
	p := &parser{s: strings.TrimSpace(text), cfg: cfg}
	var vals []interface{}
	for {
		stop := ","
		if cfg.IgnoreCommas {
			stop = ""
		}
		vals = append(vals, p.value(stop))
		p.skipWS()
		if p.eof() {
			break
		}
		if p.s[p.pos] != ',' {
			panic(ErrSyntax)
		}
		p.pos++
	}
	if len(vals) == 1 {
		return vals[0], true
	}
	return vals, true
}

func (p *parser) value(stop string) interface{} {
	p.skipWS()
	if p.eof() {
		return nil
	}
	switch c := p.s[p.pos]; {
	case c == '[' && p.cfg.Array:
		return p.array()
	case c == '{' && p.cfg.Object:
		return p.object()
	case c == '"' && p.cfg.DQuote:
		return p.dquoted()
	case c == '\'' && p.cfg.SQuote:
		return p.squoted()
	}
	return primitive(p.unquoted(stop))
}

// unquoted reads up to (not including) the first stop character; a stop character
// right at the start is an error; the text is trimmed.
func (p *parser) unquoted(stop string) string {
	rest := p.s[p.pos:]
	end := len(rest)
	if stop != "" {
		if i := strings.IndexAny(rest, stop); i >= 0 {
			end = i
		}
	}
	if end == 0 && len(rest) > 0 && stop != "" && strings.ContainsRune(stop, rune(rest[0])) {
		panic(ErrSyntax)
	}
	p.pos += end
	return strings.TrimSpace(rest[:end])
}

func primitive(s string) interface{} {
	switch s {
	case "null":
		return nil
	case "t", "T", "true", "TRUE", "True", "on", "ON":
		return true
	case "f", "F", "false", "FALSE", "False", "off", "OFF":
		return false
	}
	if u, err := strconv.ParseUint(s, 0, 64); err == nil {
		return u
	}
	if i, err := strconv.ParseInt(s, 0, 64); err == nil {
		return i
	}
	if f, err := strconv.ParseFloat(s, 64); err == nil {
		return f
	}
	return s
}

func (p *parser) array() interface{} {
	p.pos++ // [
	var vals []interface{}
	for {
		p.skipWS()
		if p.eof() {
			panic(ErrSyntax)
		}
		if p.s[p.pos] == ']' {
			p.pos++
			break
		}
		vals = append(vals, p.value(",]"))
		p.skipWS()
		if p.eof() {
			panic(ErrSyntax)
		}
		c := p.s[p.pos]
		p.pos++
		if c == ']' {
			break
		}
		if c != ',' {
			panic(ErrSyntax)
		}
	}
	if len(vals) == 0 {
		return nil
	}
	return vals
}

func (p *parser) object() interface{} {
	p.pos++ // {
	obj := map[string]interface{}{}
	for {
		p.skipWS()
		if p.eof() {
			panic(ErrSyntax)
		}
		if p.s[p.pos] == '}' {
			p.pos++
			break
		}
		var key string
		switch p.s[p.pos] {
		case '"':
			key = p.dquoted().(string)
		case '\'':
			key = p.squoted().(string)
		default:
			key = p.unquoted(":")
		}
		p.skipWS()
		if p.eof() || p.s[p.pos] != ':' {
			panic(ErrSyntax)
		}
		p.pos++
		obj[key] = p.value(",}")
		p.skipWS()
		if p.eof() {
			panic(ErrSyntax)
		}
		c := p.s[p.pos]
		p.pos++
		if c == '}' {
			break
		}
		if c != ',' {
			panic(ErrSyntax)
		}
	}
	if len(obj) == 0 {
		return nil
	}
	return obj
}

// dquoted: a double-quoted string ends at the first quote preceded by an even number
// of backslashes; its content is decoded like a Go/JSON interpreted string.
func (p *parser) dquoted() interface{} {
	i := p.pos + 1
	for {
		if i >= len(p.s) {
			panic(ErrSyntax)
		}
		if p.s[i] == '\\' {
			i += 2
			continue
		}
		if p.s[i] == '"' {
			break
		}
		i++
	}
	lit := p.s[p.pos : i+1]
	p.pos = i + 1
	s, ok := Unquote(lit)
	if !ok {
		panic(ErrSyntax)
	}
	return s
}

// Unquote decodes a double-quoted literal: every JSON escape (incl. \/ and surrogate
// pairs) and, beyond JSON, the escapes of Go interpreted strings.
func Unquote(lit string) (string, bool) {
	if s, err := strconv.Unquote(lit); err == nil {
		return s, true
	}
	// JSON-only forms: \/ and 😀
	body := lit[1 : len(lit)-1]
	var sb strings.Builder
	for i := 0; i < len(body); {
		c := body[i]
		if c != '\\' {
			if c < 0x20 {
				return "", false
			}
			sb.WriteByte(c)
			i++
			continue
		}
		if i+1 >= len(body) {
			return "", false
		}
		switch body[i+1] {
		case '/':
			sb.WriteByte('/')
			i += 2
		case 'u':
			if i+6 > len(body) {
				return "", false
			}
			r, err := strconv.ParseUint(body[i+2:i+6], 16, 32)
			if err != nil {
				return "", false
			}
			i += 6
			if r >= 0xD800 && r < 0xDC00 && i+6 <= len(body) && body[i] == '\\' && body[i+1] == 'u' {
				if r2, err := strconv.ParseUint(body[i+2:i+6], 16, 32); err == nil && r2 >= 0xDC00 && r2 < 0xE000 {
					sb.WriteRune(rune(0x10000 + (r-0xD800)<<10 + (r2 - 0xDC00)))
					i += 6
					continue
				}
			}
			sb.WriteRune(rune(r))
		default:
			// one Go escape
			v, _, tail, err := strconv.UnquoteChar(body[i:], '"')
			if err != nil {
				return "", false
			}
			sb.WriteRune(v)
			i = len(body) - len(tail)
		}
	}
	return sb.String(), true
}

// squoted: raw text up to the next single quote, no escapes.
func (p *parser) squoted() interface{} {
	rest := p.s[p.pos+1:]
	i := strings.IndexByte(rest, '\'')
	if i < 0 {
		panic(ErrSyntax)
	}
	p.pos += i + 2
	return rest[:i]
}
