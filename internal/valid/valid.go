// Package valid is an independent implementation of go-ucfg's five tag validators
// (required, nonzero, positive, min, max incl. duration bounds) and of Validate()
// discovery, applied to a result value by walking it with reflect through pointers,
// slices, arrays, maps and struct fields (DESIGN.md Appendix A.6). Semantics are
// those of the doc comment on Unpack, applied to the final value after following
// non-nil pointers; a nil pointer satisfies everything but `required`.
package valid

import (
	"fmt"
	"reflect"
	"regexp"
	"strconv"
	"strings"
	"time"
)

type Validator interface{ Validate() error }

var tValidator = reflect.TypeOf((*Validator)(nil)).Elem()
var tDuration = reflect.TypeOf(time.Duration(0))
var tRegexp = reflect.TypeOf(regexp.Regexp{})

// Violation describes the first failure found.
type Violation struct {
	Path string
	What string
}

func (v *Violation) String() string { return v.Path + ": " + v.What }

func paramDuration(p string) (time.Duration, bool) {
	if d, err := time.ParseDuration(p); err == nil {
		return d, true
	}
	f, err := strconv.ParseFloat(p, 64)
	if err != nil {
		return 0, false
	}
	return time.Duration(f * float64(time.Second)), true
}

// TagViolated reports whether value v violates the validate tag (comma separated list).
func TagViolated(tag string, v reflect.Value) (bool, string) {
	if tag == "" {
		return false, ""
	}
	for _, item := range strings.Split(tag, ",") {
		kv := strings.SplitN(strings.TrimSpace(item), "=", 2)
		name, param := kv[0], ""
		if len(kv) == 2 {
			param = strings.TrimSpace(kv[1])
		}
		if one(name, param, v) {
			return true, name
		}
	}
	return false, ""
}

func one(name, param string, v reflect.Value) bool {
	// follow non-nil pointers / interfaces
	for (v.Kind() == reflect.Ptr || v.Kind() == reflect.Interface) && !v.IsNil() {
		if v.Type() == reflect.PtrTo(tRegexp) {
			break
		}
		v = v.Elem()
	}
	if v.Kind() == reflect.Ptr && v.IsNil() || v.Kind() == reflect.Interface && v.IsNil() {
		return name == "required"
	}
	isDur := v.Type() == tDuration
	k := v.Kind()
	isInt := k >= reflect.Int && k <= reflect.Int64
	isUint := k >= reflect.Uint && k <= reflect.Uint64
	isFloat := k == reflect.Float32 || k == reflect.Float64
	switch name {
	case "required", "nonzero":
		switch {
		case isInt:
			return v.Int() == 0
		case isUint:
			return v.Uint() == 0
		case isFloat:
			return v.Float() == 0
		case k == reflect.String:
			return v.String() == ""
		case v.Type() == reflect.PtrTo(tRegexp):
			return v.Interface().(*regexp.Regexp).String() == ""
		case k == reflect.Slice || k == reflect.Map:
			if v.IsNil() {
				return name == "required"
			}
			return v.Len() == 0
		case k == reflect.Array:
			return v.Len() == 0
		}
		return false
	case "positive":
		switch {
		case isInt:
			return v.Int() < 0
		case isFloat:
			return v.Float() < 0
		}
		return false
	case "min", "max":
		less := name == "min"
		switch {
		case isDur:
			d, ok := paramDuration(param)
			if !ok {
				return true
			}
			if less {
				return time.Duration(v.Int()) < d
			}
			return time.Duration(v.Int()) > d
		case isInt:
			p, err := strconv.ParseInt(param, 0, 64)
			if err != nil {
				return true
			}
			if less {
				return v.Int() < p
			}
			return v.Int() > p
		case isUint:
			p, err := strconv.ParseUint(param, 0, 64)
			if err != nil {
				return true
			}
			if less {
				return v.Uint() < p
			}
			return v.Uint() > p
		case isFloat:
			p, err := strconv.ParseFloat(param, 64)
			if err != nil {
				return true
			}
			if less {
				return v.Float() < p
			}
			return v.Float() > p
		}
		return false
	}
	return false
}

// Check walks the result value: every struct field's validate tag and every reachable
// value implementing Validate() (by value or by pointer) must accept.
func Check(v reflect.Value, tagName string) *Violation {
	return check(v, "", tagName, 0)
}

func callValidate(v reflect.Value) error {
	if !v.IsValid() {
		return nil
	}
	if (v.Kind() == reflect.Ptr || v.Kind() == reflect.Interface) && v.IsNil() {
		return nil
	}
	if v.Type().Implements(tValidator) && v.CanInterface() {
		return v.Interface().(Validator).Validate()
	}
	if v.Kind() != reflect.Ptr && reflect.PtrTo(v.Type()).Implements(tValidator) {
		p := reflect.New(v.Type())
		p.Elem().Set(v)
		return p.Interface().(Validator).Validate()
	}
	return nil
}

func check(v reflect.Value, path, tagName string, depth int) *Violation {
	if !v.IsValid() || depth > 12 {
		return nil
	}
	if err := callValidate(v); err != nil {
		return &Violation{path, "Validate() rejects: " + err.Error()}
	}
	switch v.Kind() {
	case reflect.Ptr, reflect.Interface:
		if v.IsNil() {
			return nil
		}
		if v.Type() == reflect.PtrTo(tRegexp) {
			return nil
		}
		return check(v.Elem(), path, tagName, depth+1)
	case reflect.Struct:
		if v.Type() == tRegexp {
			return nil
		}
		t := v.Type()
		for i := 0; i < t.NumField(); i++ {
			f := t.Field(i)
			if f.PkgPath != "" {
				continue
			}
			cfgTag := f.Tag.Get("config")
			parts := strings.Split(cfgTag, ",")
			ignore := false
			for _, o := range parts[1:] {
				if o == "ignore" {
					ignore = true
				}
			}
			if ignore {
				continue
			}
			fp := path + "." + f.Name
			if bad, which := TagViolated(f.Tag.Get(tagName), v.Field(i)); bad {
				return &Violation{fp, fmt.Sprintf("validator %q violated by %v", which, show(v.Field(i)))}
			}
			if x := check(v.Field(i), fp, tagName, depth+1); x != nil {
				return x
			}
		}
	case reflect.Slice, reflect.Array:
		for i := 0; i < v.Len(); i++ {
			if x := check(v.Index(i), fmt.Sprintf("%s[%d]", path, i), tagName, depth+1); x != nil {
				return x
			}
		}
	case reflect.Map:
		for _, k := range v.MapKeys() {
			if x := check(v.MapIndex(k), fmt.Sprintf("%s[%v]", path, k), tagName, depth+1); x != nil {
				return x
			}
		}
	}
	return nil
}

func show(v reflect.Value) string {
	for v.Kind() == reflect.Ptr && !v.IsNil() {
		v = v.Elem()
	}
	if v.CanInterface() {
		return fmt.Sprintf("%v", v.Interface())
	}
	return "?"
}
