// Package verifrt is injected into go-ucfg through `go build -overlay` by
// /verif/cmd/instrument.  Every hook is a nil-checked function variable: with no
// hook installed an instrumented binary behaves like the original one, except
// that maps are iterated in sorted key order (a legal order for the original
// program).
package verifrt

import (
	"fmt"
	"reflect"
	"sort"
	"sync/atomic"
)

// PointHook is called at every scheduling point (function entry, heap store).
var PointHook func(site int)

// OrderHook returns the permutation to apply to the n sorted keys about to be
// iterated at site (nil => keep sorted order).
var OrderHook func(site int, n int) []int

// Scheduler hooks (nil => native behaviour).
var GoHook func(site int, f func())
var BlockHook func(kind int, ch reflect.Value, try func() bool) // kind 0 send, 1 recv
var ChanPointHook func(site int)
var ChanDoneHook func(ch interface{})

// goroutine accounting (always on): started / finished through the `go` hook.
var goStarted, goFinished int64

func GoCounts() (started, finished int64) {
	return atomic.LoadInt64(&goStarted), atomic.LoadInt64(&goFinished)
}

// Hits counts executions per site when enabled.
var CountSites bool
var siteHits [4096]int64

func SiteHits() map[int]int64 {
	m := map[int]int64{}
	for i := range siteHits {
		if n := atomic.LoadInt64(&siteHits[i]); n > 0 {
			m[i] = n
		}
	}
	return m
}

func Point(site int) {
	if h := PointHook; h != nil {
		h(site)
	}
}

func Go(site int, f func()) {
	atomic.AddInt64(&goStarted, 1)
	g := func() {
		defer atomic.AddInt64(&goFinished, 1)
		f()
	}
	if h := GoHook; h != nil {
		h(site, g)
		return
	}
	go g()
}

func ChanPoint(site int) {
	if h := ChanPointHook; h != nil {
		h(site)
	}
}

func ChanDone(ch interface{}) {
	if h := ChanDoneHook; h != nil {
		h(ch)
	}
}

func Send(ch interface{}, v interface{}) {
	cv := reflect.ValueOf(ch)
	var vv reflect.Value
	if v == nil {
		vv = reflect.Zero(cv.Type().Elem())
	} else {
		vv = reflect.ValueOf(v)
	}
	if h := BlockHook; h != nil {
		h(0, cv, func() bool { return cv.TrySend(vv) })
		return
	}
	cv.Send(vv)
}

func Recv(ch interface{}) (interface{}, bool) {
	cv := reflect.ValueOf(ch)
	if h := BlockHook; h != nil {
		var out reflect.Value
		var ok bool
		h(1, cv, func() bool {
			x, rok := cv.TryRecv()
			if !rok && !x.IsValid() {
				return false // would block
			}
			out, ok = x, rok
			return true
		})
		if !ok {
			return nil, false
		}
		return out.Interface(), true
	}
	x, ok := cv.Recv()
	if !ok {
		return nil, false
	}
	return x.Interface(), true
}

func keyString(v reflect.Value) string {
	for v.Kind() == reflect.Interface && !v.IsNil() {
		v = v.Elem()
	}
	if v.Kind() == reflect.String {
		return "s:" + v.String()
	}
	if v.CanInterface() {
		return fmt.Sprintf("%T:%v", v.Interface(), v.Interface())
	}
	return fmt.Sprint(v)
}

func permute(site int, ks []reflect.Value) []reflect.Value {
	if CountSites && site < len(siteHits) {
		atomic.AddInt64(&siteHits[site], 1)
	}
	sort.SliceStable(ks, func(i, j int) bool { return keyString(ks[i]) < keyString(ks[j]) })
	if h := OrderHook; h != nil && len(ks) > 1 {
		p := h(site, len(ks))
		if p == nil {
			return ks
		}
		if len(p) != len(ks) {
			panic("verifrt: order hook returned a permutation of the wrong length")
		}
		out := make([]reflect.Value, len(ks))
		for i, j := range p {
			out[i] = ks[j]
		}
		return out
	}
	return ks
}

// Order returns the keys of map m in hook-chosen order (sorted by default).
func Order(site int, m interface{}) []interface{} {
	v := reflect.ValueOf(m)
	if !v.IsValid() || v.Kind() != reflect.Map || v.IsNil() || v.Len() == 0 {
		return nil
	}
	ks := permute(site, v.MapKeys())
	out := make([]interface{}, len(ks))
	for i, k := range ks {
		out[i] = k.Interface()
	}
	return out
}

// OrderRV orders the result of reflect.Value.MapKeys.
func OrderRV(site int, ks []reflect.Value) []reflect.Value {
	cp := append([]reflect.Value(nil), ks...)
	return permute(site, cp)
}
