#!/usr/bin/env python3
"""mkmut.py <name> <file> <old> <new> [<file> <old> <new> ...]: write mutants/<name>.patch (a unified diff
against /repo's current tree) replacing exactly one occurrence of <old> by <new> per triple. /repo is not touched."""
import sys, os, subprocess, tempfile, shutil
name = sys.argv[1]
triples = sys.argv[2:]
out = []
for i in range(0, len(triples), 3):
    f, old, new = triples[i:i+3]
    old = old.encode().decode('unicode_escape'); new = new.encode().decode('unicode_escape')
    src = open(os.path.join('/repo', f)).read()
    if src.count(old) != 1:
        sys.exit(f"{f}: pattern occurs {src.count(old)} times: {old!r}")
    d = tempfile.mkdtemp()
    os.makedirs(os.path.join(d, 'a', os.path.dirname(f)), exist_ok=True)
    os.makedirs(os.path.join(d, 'b', os.path.dirname(f)), exist_ok=True)
    open(os.path.join(d, 'a', f), 'w').write(src)
    open(os.path.join(d, 'b', f), 'w').write(src.replace(old, new))
    r = subprocess.run(['diff', '-u', os.path.join('a', f), os.path.join('b', f)], cwd=d, capture_output=True, text=True)
    out.append(r.stdout)
    shutil.rmtree(d)
dest = sys.argv[0].replace('tools/mkmut.py', '') + 'mutants/' + name + '.patch'
open(os.path.join('/verif/mutants', name + '.patch'), 'w').write(''.join(out))
print(''.join(out))
