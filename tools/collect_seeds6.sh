#!/bin/bash
# collect_seeds.sh: verify every /tmp/seed6/CNN/seed_patch_k.diff + seed_demo_k_test.go produced by the seeding
# sub-agents (against the tree they were written for: a scratch worktree of /repo's base commit) and store the
# confirmed ones as /verif/seeded/CNN-k/{patch.diff,demo_test.go,meta.json}.
export GOFLAGS=-mod=mod GOPROXY=off GOSUMDB=off GOTOOLCHAIN=local
BASE=${BASE:-4b50047}
WT=/tmp/seedverify6
git -C /repo worktree remove --force $WT 2>/dev/null
git -C /repo worktree add --detach $WT $BASE >/dev/null 2>&1 || exit 2
for d in /tmp/seed6/C[0-9][0-9]; do
  id=$(basename $d)
  for k in 1 2; do
    p=$d/seed_patch_$k.diff; t=$d/seed_demo_${k}_test.go
    [ -f $p ] && [ -f $t ] || { echo "$id-$k: missing files"; continue; }
    place=$(head -3 $t | grep -o 'place in: *[^ ]*' | head -1 | sed 's/place in: *//')
    [ -z "$place" ] && place=.
    git -C $WT checkout -q -- . ; git -C $WT clean -qfd
    # 1. demo passes on the original
    cp $t $WT/$place/zz_seed_demo_test.go
    if ( cd $WT/$place && go test -vet=off -count=1 -run 'Seed' . >/dev/null 2>&1 ); then orig=pass; else orig=FAIL; fi
    rm -f $WT/$place/zz_seed_demo_test.go
    # 2. suite passes with the change
    if ! git -C $WT apply $p 2>/dev/null; then echo "$id-$k: patch does not apply"; continue; fi
    if ( cd $WT && go test -vet=off -count=1 ./... >/dev/null 2>&1 ); then suite=pass; else suite=FAIL; fi
    # 3. demo fails with the change
    cp $t $WT/$place/zz_seed_demo_test.go
    if ( cd $WT/$place && go test -vet=off -count=1 -run 'Seed' . >/dev/null 2>&1 ); then demo=pass; else demo=FAIL; fi
    rm -f $WT/$place/zz_seed_demo_test.go
    git -C $WT checkout -q -- . ; git -C $WT clean -qfd
    echo "$id-$k: demo-on-original=$orig suite-with-change=$suite demo-with-change=$demo"
    if [ $orig = pass ] && [ $suite = pass ] && [ $demo = FAIL ]; then
      out=/verif/seeded/$id-r6-$k; mkdir -p $out
      cp $p $out/patch.diff; cp $t $out/demo_test.go
      [ -f $out/meta.json ] || cat > $out/meta.json <<EOM
{"property": "$id", "base_commit": "$BASE", "demo_place_in": "$place",
 "needs": "", "ran": "worktree at $BASE: demo passes on the original; with patch.diff applied 'go test -vet=off -count=1 ./...' passes and the demo fails",
 "caught_by": []}
EOM
    fi
  done
done
git -C /repo worktree remove --force $WT
