#!/usr/bin/env python3
"""Regenerates the table of DESIGN.md section 9.2 from evidence/*.json (numbers measured by the last quick runs)."""
import json, glob, os
V='/verif'
def n(x):
    if x>=1_000_000: return f'{x/1e6:.2f} M'
    if x>=10_000: return f'{x/1e3:.0f} k'
    if x>=1_000: return f'{x/1e3:.1f} k'
    return str(x)
rows=['| id | spaces: cases evaluated (states / transitions or executions where the check is a state-space search) | wall |','|---|---|---|']
for f in sorted(glob.glob(f'{V}/evidence/C*.json')):
    e=json.load(open(f))
    if e.get('tier')!='quick': 
        rows.append(f"| {e['property_id']} | (last run was {e.get('tier')}) | |"); continue
    parts=[]
    for sp in e['coverage']['spaces']:
        t=f"{sp['space']}: {n(sp['evaluations'])}"
        ex=sp.get('extra') or {}
        if ex.get('executions'): t+=f" ({n(ex['executions'])} executions)"
        elif ex.get('schedules'): t+=f" ({n(ex['schedules'])} schedules)"
        elif sp.get('transitions') and sp['transitions']!=sp['evaluations']: t+=f" ({n(sp.get('states',0))} states / {n(sp['transitions'])} transitions)"
        if sp.get('undefined_by_model'): t+=f", {n(sp['undefined_by_model'])} undefined"
        parts.append(t)
    rows.append(f"| {e['property_id']} | {'; '.join(parts)} | {e['wall_s']:.0f} s |")
s=open(f'{V}/DESIGN.md').read()
a=s.index('<!-- COVERAGE BEGIN -->')+len('<!-- COVERAGE BEGIN -->')
b=s.index('<!-- COVERAGE END -->')
s=s[:a]+'\n'+'\n'.join(rows)+'\n'+s[b:]
open(f'{V}/DESIGN.md','w').write(s)
print(len(rows)-2,'rows')
