#!/usr/bin/env python3
"""Regenerates /verif/MANIFEST.json from tools/manifest_checks.json (per-property text) and properties.jsonl."""
import json, os
V = '/verif'
props = [json.loads(l) for l in open(f'{V}/properties.jsonl')]
checks = json.load(open(f'{V}/tools/manifest_checks.json'))
claimed = {c['property_id'] for c in checks['checks']}
out = {
 "version": 1,
 "setup_cmd": "./vcheck setup",
 "hooks": {
  "guard": "none: no hook commits in the repository; all instrumentation is a `go build -overlay` regenerated from /repo's working tree by cmd/instrument on every run",
  "enable": "./vcheck <ID> <tier> instruments the current tree into .work/ovl/<hash>/ and builds cmd/vcheckbin with -overlay",
  "baseline_off_cmd": "cd /repo && GOFLAGS=-mod=mod go test -vet=off -count=1 ./...",
  "source_commits": [],
  "add_only": True
 },
 "engines": checks['engines'],
 "checks": [],
 "notes": checks.get('notes', ''),
 "not_applicable": []
}
for c in checks['checks']:
    pid = c['property_id']
    e = {
     "property_id": pid,
     "quick_cmd": f"./vcheck {pid} quick",
     "thorough_cmd": f"./vcheck {pid} thorough",
     "evidence_file": f"/verif/evidence/{pid}.json",
     "replay_cmd_template": "./vcheck replay {path}",
     "engine": c['engine'],
     "level_claimed": {"category": c['category'], "text": c['text'], "design_ref": c.get('design_ref', f"DESIGN.md section 3 / {pid}")},
     "level_note": c['note'],
     "technique": c['technique'],
    }
    out['checks'].append(e)
for p in props:
    if p['id'] not in claimed:
        r = checks.get('not_applicable', {}).get(p['id'], "check not built yet (construction in progress, see DESIGN.md section 8)")
        out['not_applicable'].append({"property_id": p['id'], "reason": r})
json.dump(out, open(f'{V}/MANIFEST.json', 'w'), indent=1)
print("claimed:", sorted(claimed))
