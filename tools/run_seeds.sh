#!/bin/bash
# run_seeds.sh [ids...]: apply every seeded change to a scratch copy of /repo, run a set of checks against it and
# record which checks catch it in seeded/<id>/meta.json (caught_by). Checks tried: the property's own check first,
# then the neighbours listed in NEIGHBOURS.
cd /verif
declare -A NEIGH=( [C01]="C10 C05" [C02]="C08 C09" [C05]="C01 C09" [C07]="C20 C17" [C08]="C02 C09" [C09]="C05 C08 C02" [C10]="C01 C12" [C11]="C10" [C12]="C15 C10" [C14]="C15 C18" [C15]="C12 C14" [C18]="C03 C14" [C13]="C04" [C04]="C13" [C20]="C07" [C17]="C07" )
for d in seeded/C*/; do
  name=$(basename $d); prop=$(jq -r .property $d/meta.json)
  if [ $# -gt 0 ]; then case " $* " in *" $name "*|*" $prop "*) ;; *) continue;; esac; fi
  caught=""
  for c in $prop ${NEIGH[$prop]:-}; do
    out=$(SEED_CHECKS="$c" SELFTEST_SKIP_TESTS=1 timeout 1500 ./vcheck seeded $name 2>&1 | grep "^SELFTEST $name")
    if echo "$out" | grep -q "caught-by:"; then caught="$caught $c"; fi
    if echo "$out" | grep -q "does not apply"; then caught="PATCH-DOES-NOT-APPLY"; break; fi
  done
  echo "$name: $caught"
  python3 - "$d/meta.json" $caught <<'PY'
import json,sys
p=sys.argv[1]; m=json.load(open(p)); m['caught_by']=[c for c in sys.argv[2:] if c.startswith('C')]
if sys.argv[2:]==['PATCH-DOES-NOT-APPLY']: m['caught_by']=[]; m['applies']=False
json.dump(m,open(p,'w'),indent=1)
PY
done
