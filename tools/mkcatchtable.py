#!/usr/bin/env python3
"""Regenerates Appendix D of DESIGN.md from mutants/RESULTS.txt (output of ./vcheck selftest) and seeded/*/meta.json."""
import json, glob, os, re
V='/verif'
rows=[]
res={}
if os.path.exists(f'{V}/mutants/RESULTS.txt'):
    for l in open(f'{V}/mutants/RESULTS.txt'):
        m=re.match(r'SELFTEST (\S+): repo-tests=(\S+) (caught-by:(.*)|NOT CAUGHT.*)',l.strip())
        if m: res[m.group(1)]=(m.group(2),(m.group(4) or '').strip() or 'NOT CAUGHT')
out=['Own mutants (`mutants/*.patch`, each verified to compile and to pass the repository\'s test suite; `./vcheck selftest`', 'applies each to a scratch copy outside /repo and /verif and requires the property\'s quick check to exit 1 with a VIOLATION line):','','| mutant | repository tests | caught by |','|---|---|---|']
for f in sorted(glob.glob(f'{V}/mutants/*.patch')):
    n=os.path.basename(f)[:-6]
    t,c=res.get(n,('?','(not run yet)'))
    out.append(f'| {n} | {t} | {c} |')
out+=['','Seeded changes written by independent sub-agents that saw only the property text (`seeded/<id>/`: patch.diff, demo_test.go,','meta.json; each confirmed: demo passes on the original, the repository\'s suite passes with the change, the demo fails with it):','','| seed | what it breaks / needs | caught by |','|---|---|---|']
for d in sorted(glob.glob(f'{V}/seeded/*/')):
    m=json.load(open(d+'meta.json'))
    c=' '.join(m.get('caught_by') or []) or 'NOT CAUGHT'
    if m.get('neutralised'): c='no longer a violation: '+m['neutralised']
    if m.get('note'): c+=f" ({m['note']})"
    if m.get('rebased'): c+=' (patch re-made on the repaired tree)'
    out.append(f"| {os.path.basename(d[:-1])} | {m.get('needs','')} | {c} |")
s=open(f'{V}/DESIGN.md').read()
a=s.index('<!-- CATCHTABLE BEGIN -->')+len('<!-- CATCHTABLE BEGIN -->')
b=s.index('<!-- CATCHTABLE END -->')
s=s[:a]+'\n'+'\n'.join(out)+'\n'+s[b:]
open(f'{V}/DESIGN.md','w').write(s)
print(len(res),'mutant results')
