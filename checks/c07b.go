package checks

import (
	"fmt"

	ucfg "github.com/elastic/go-ucfg"
	"github.com/elastic/go-ucfg/diff"

	"verif/internal/core"
)

// C07, graphs of configs built with SetChild: a config can be attached at several places, so a sequence of
// SetChild calls among three configs can try to close a cycle. Every sequence of up to three calls (thorough:
// four) is executed and every read entry point is then called on every config: each returns.
func c07SetChildGraphs(depth int) *core.Space {
	type op struct {
		dst, src int
		name     string
		idx      int
	}
	addrs := []struct {
		name string
		idx  int
	}{{"k", -1}, {"l", 0}, {"k.n", -1}}
	var ops []op
	for d := 0; d < 3; d++ {
		for s := 0; s < 3; s++ {
			for _, a := range addrs {
				ops = append(ops, op{d, s, a.name, a.idx})
			}
		}
	}
	// sequences of length 1..depth
	offs := []int{0}
	total := 0
	for l, n := 1, len(ops); l <= depth; l++ {
		total += n
		offs = append(offs, total)
		n *= len(ops)
	}
	dec := func(i int) []op {
		l := 1
		for i >= offs[l] {
			l++
		}
		i -= offs[l-1]
		seq := make([]op, l)
		for k := 0; k < l; k++ {
			seq[k] = ops[i%len(ops)]
			i /= len(ops)
		}
		return seq
	}
	names := []string{"X", "Y", "Z"}
	return &core.Space{
		Name: fmt.Sprintf("setchild-graphs<=%d-calls", depth),
		Size: total,
		Text: func(i int) string {
			s := ""
			for _, o := range dec(i) {
				s += fmt.Sprintf("%s.SetChild(%q, %d, %s); ", names[o.dst], o.name, o.idx, names[o.src])
			}
			return s + "then FlattenedKeys, Unpack, GetFields, Path, CompareConfigs and a Merge as source on X, Y and Z"
		},
		Exec: func(i int) core.Result {
			var res core.Result
			pi := core.Guard(func() {
				cfgs := []*ucfg.Config{mustCfg(M{"x": 1}), mustCfg(M{"y": 2}), mustCfg(M{"z": 3})}
				refused := 0
				for _, o := range dec(i) {
					if err := cfgs[o.dst].SetChild(o.name, o.idx, cfgs[o.src], ucfg.PathSep(".")); err != nil {
						refused++
					}
				}
				for _, c := range cfgs {
					c.FlattenedKeys(ucfg.PathSep("."))
					var m map[string]interface{}
					c.Unpack(&m, ucfg.PathSep("."))
					c.GetFields()
					c.Path(".")
					c.Parent()
					diff.CompareConfigs(c, cfgs[0], ucfg.PathSep("."))
					ucfg.New().Merge(c, ucfg.PathSep("."))
					if ch, err := c.Child("k", -1); err == nil {
						ch.Path(".")
						ch.FlattenedKeys()
					}
				}
				res = core.Result{Nontrivial: true, Outcome: fmt.Sprintf("%d calls refused", refused)}
			})
			if pi != nil {
				return apiPanic("setchild-graph", pi)
			}
			return res
		},
	}
}
