package checks

import (
	"fmt"
	"reflect"
	"sort"
	"strings"

	ucfg "github.com/elastic/go-ucfg"
	"github.com/elastic/go-ucfg/diff"

	"verif/internal/core"
	"verif/internal/tree"
)

// C08, second part: references to lists and objects, reached along several paths (diamonds),
// read into typed targets and through key flattening. The model here is a plain substitution
// over generic data: a pure reference "${x}" stands for the value of the setting x.

type c08cModel struct {
	root    map[string]interface{}
	cyclic  bool
	visited map[string]bool
}

// lookup walks a dotted path through the root, resolving references on the way.
func (m *c08cModel) lookup(path string, stack []string) (interface{}, bool) {
	var cur interface{} = m.root
	for _, seg := range strings.Split(path, ".") {
		cur = m.resolve(cur, stack)
		switch c := cur.(type) {
		case map[string]interface{}:
			v, ok := c[seg]
			if !ok {
				return nil, false
			}
			cur = v
		case []interface{}:
			i := int(seg[0] - '0')
			if len(seg) != 1 || i < 0 || i >= len(c) {
				return nil, false
			}
			cur = c[i]
		default:
			if seg == "0" && cur != nil {
				continue // a primitive is its own element 0
			}
			return nil, false
		}
	}
	return cur, true
}

func refName(v interface{}) (string, bool) {
	s, ok := v.(string)
	if ok && strings.HasPrefix(s, "${") && strings.HasSuffix(s, "}") {
		return s[2 : len(s)-1], true
	}
	return "", false
}

// resolve follows pure references until a non-reference value is reached (one level, not deep).
func (m *c08cModel) resolve(v interface{}, stack []string) interface{} {
	for {
		name, ok := refName(v)
		if !ok {
			return v
		}
		for _, s := range stack {
			if s == name {
				m.cyclic = true
				return nil
			}
		}
		stack = append(stack, name)
		t, found := m.lookup(name, stack)
		if !found {
			m.cyclic = true // a reference that cannot be resolved is an error as well
			return nil
		}
		v = t
	}
}

// deep substitutes all references.
func (m *c08cModel) deep(v interface{}, stack []string) interface{} {
	if name, ok := refName(v); ok {
		for _, s := range stack {
			if s == name {
				m.cyclic = true
				return nil
			}
		}
		t, found := m.lookup(name, append(stack, name))
		if !found {
			m.cyclic = true
			return nil
		}
		return m.deep(t, append(stack, name))
	}
	switch c := v.(type) {
	case map[string]interface{}:
		out := map[string]interface{}{}
		for k, e := range c {
			out[k] = m.deep(e, stack)
		}
		return out
	case []interface{}:
		out := make([]interface{}, len(c))
		for i, e := range c {
			out[i] = m.deep(e, stack)
		}
		return out
	}
	return v
}

// keys: the flattened keys as the library defines them - a reference to a list or object is
// expanded to the keys of the referenced setting (under that setting's own path), each time it
// is met; a reference that cannot be expanded (primitive, cyclic) is a key itself.
func (m *c08cModel) keys(v interface{}, path string, visiting []string) []string {
	join := func(p, s string) string {
		if p == "" {
			return s
		}
		return p + "." + s
	}
	if _, ok := refName(v); ok {
		// follow the chain, remembering the path of the container finally reached
		cur, curPath := v, path
		var stack []string
		for {
			n, ok := refName(cur)
			if !ok {
				break
			}
			for _, s := range stack {
				if s == n {
					return []string{path}
				}
			}
			stack = append(stack, n)
			mm := &c08cModel{root: m.root}
			t, found := mm.lookup(n, nil)
			if !found || mm.cyclic {
				return []string{path}
			}
			cur, curPath = t, n
		}
		switch cur.(type) {
		case map[string]interface{}, []interface{}:
			for _, vp := range visiting {
				if vp == curPath {
					return []string{path}
				}
			}
			return m.keys(cur, curPath, visiting)
		}
		return []string{path}
	}
	switch c := v.(type) {
	case map[string]interface{}:
		var out []string
		for k, e := range c {
			out = append(out, m.keys(e, join(path, k), append(visiting, path))...)
		}
		return out
	case []interface{}:
		var out []string
		for i, e := range c {
			out = append(out, m.keys(e, join(path, fmt.Sprint(i)), append(visiting, path))...)
		}
		return out
	}
	return []string{path}
}

type c08RecS struct {
	A, B, O, K, J, N, M, X *c08RecS
}

type c08RecM map[string]c08RecM

// c08ContainerCases enumerates the configurations of the container-reference space.
func c08ContainerCases() (int, func(i int) M) {
	menu := func(self, other string) []interface{} {
		return []interface{}{nil, "${l}", "${o}", "${l.0}", "${o.k}", L{"${l}", "${l}"}, M{"n": "${o}", "m": "${o}"}, "${" + other + "}", L{"${o.k}", "${o.k}"}, M{"n": "${l}"},
			"${" + self + ".x}", "${" + other + ".k}", "${" + other + ".0}"}
	}
	ma, mb := menu("a", "b"), menu("b", "a")
	ovars := []M{{"k": "v"}, {"k": "${l}"}, {"k": "${l.1}", "j": "${l.1}"}, {"k": "${a}"}}
	radices := []int{len(ma), len(mb), len(ovars)}
	build := func(i int) M {
		d := mixedRadix(i, radices...)
		in := M{"l": L{"x", "y"}, "o": ovars[d[2]]}
		if ma[d[0]] != nil {
			in["a"] = ma[d[0]]
		}
		if mb[d[1]] != nil {
			in["b"] = mb[d[1]]
		}
		return in
	}
	return product(radices...), build
}

func c08Containers() *core.Space {
	size, build := c08ContainerCases()
	return &core.Space{
		Name:        "container-references-and-diamonds",
		Size:        size,
		CaseTimeout: 20e9,
		Text: func(i int) string {
			return fmt.Sprintf("%v read into map, struct{A,B interface{}}, struct{A,B []interface{}}, struct{A []interface{}; B interface{}}, FlattenedKeys, CompareConfigs", tree.CanonGo(map[string]interface{}(build(i))))
		},
		Exec: func(i int) core.Result {
			in := build(i)
			var res core.Result
			pi := core.Guard(func() {
				opts := []ucfg.Option{ucfg.PathSep("."), ucfg.VarExp}
				generic := toGeneric(map[string]interface{}(in)).(map[string]interface{})
				m := &c08cModel{root: generic}
				want := m.deep(generic, nil)
				cyclic := m.cyclic
				cfg, err := ucfg.NewFrom(in, opts...)
				if err != nil {
					res = core.Fail("containers", "BUILD", err.Error())
					return
				}
				fail := func(entry, class, detail string) {
					res = core.Fail(entry, class+" "+entry, detail)
				}
				// map target
				var got map[string]interface{}
				uerr := cfg.Unpack(&got, opts...)
				if cyclic && uerr == nil {
					fail("Unpack->map", "CYCLE-NOT-REPORTED", fmt.Sprintf("model cyclic, impl unpacked %s", tree.CanonGo(got)))
					return
				}
				if !cyclic {
					if uerr != nil {
						fail("Unpack->map", "FALSE-ERROR", fmt.Sprintf("no reference is re-entered, impl error: %v", uerr))
						return
					}
					if g, w := tree.CanonGo(got), tree.CanonGo(want); g != w {
						fail("Unpack->map", "WRONG-VALUE", fmt.Sprintf("model %s impl %s", w, g))
						return
					}
				}
				wm, _ := want.(map[string]interface{})
				fieldsCyclic := false
				for _, f := range []string{"a", "b"} {
					if v, ok := generic[f]; ok {
						fm := &c08cModel{root: generic}
						fm.deep(v, nil)
						fieldsCyclic = fieldsCyclic || fm.cyclic
					}
				}
				shallowObj := func(f string) bool {
					v, ok := generic[f]
					if !ok {
						return false
					}
					_, obj := (&c08cModel{root: generic}).resolve(v, nil).(map[string]interface{})
					return obj
				}
				isList := func(v interface{}) bool { _, ok := v.([]interface{}); return ok }
				isObj := func(v interface{}) bool { _, ok := v.(map[string]interface{}); return ok }
				// struct targets
				type sII struct{ A, B interface{} }
				type sLL struct{ A, B []interface{} }
				type sLI struct {
					A []interface{}
					B interface{}
				}
				type sIL struct {
					A interface{}
					B []interface{}
				}
				asList := func(v interface{}) interface{} {
					if v == nil || isList(v) {
						return v
					}
					return []interface{}{v}
				}
				targets := []struct {
					name  string
					t     interface{}
					listA bool
					listB bool
				}{
					{"struct{A,B interface{}}", &sII{}, false, false},
					{"struct{A,B []interface{}}", &sLL{}, true, true},
					{"struct{A []interface{}; B interface{}}", &sLI{}, true, false},
					{"struct{A interface{}; B []interface{}}", &sIL{}, false, true},
				}
				for _, tg := range targets {
					if !cyclic && ((tg.listA && isObj(wm["a"])) || (tg.listB && isObj(wm["b"]))) {
						continue // an object read into a slice: outside the claim
					}
					terr := cfg.Unpack(tg.t, opts...)
					if cyclic {
						// (a cycle that a or b runs into is met by every target; one that
						// only the settings l and o hold is not read by these structs)
						if !fieldsCyclic || (tg.listA && shallowObj("a")) || (tg.listB && shallowObj("b")) {
							continue // (an object read into a slice is not evaluated)
						}
						if terr == nil {
							fail("Unpack->"+tg.name, "CYCLE-NOT-REPORTED", fmt.Sprintf("model cyclic, impl unpacked %+v", reflect.ValueOf(tg.t).Elem().Interface()))
							return
						}
						continue
					}
					if terr != nil {
						fail("Unpack->"+tg.name, "FALSE-ERROR", fmt.Sprintf("no reference is re-entered, impl error: %v", terr))
						return
					}
					rv := reflect.ValueOf(tg.t).Elem()
					wa, wb := wm["a"], wm["b"]
					if tg.listA {
						wa = asList(wa)
					}
					if tg.listB {
						wb = asList(wb)
					}
					ga, gb := rv.Field(0).Interface(), rv.Field(1).Interface()
					if tree.CanonGo(ga) != tree.CanonGo(wa) || tree.CanonGo(gb) != tree.CanonGo(wb) {
						fail("Unpack->"+tg.name, "WRONG-VALUE", fmt.Sprintf("model A=%s B=%s impl A=%s B=%s", tree.CanonGo(wa), tree.CanonGo(wb), tree.CanonGo(ga), tree.CanonGo(gb)))
						return
					}
				}
				// recursive target types: only the configuration can end the recursion, so a
				// reference to an object has to stay active while the object is unpacked
				// (termination; the strings of l and o do not fit these types, so an error is
				// expected in most cases and no value is compared)
				var recS c08RecS
				rerr := cfg.Unpack(&recS, opts...)
				var recM c08RecM
				merr := cfg.Unpack(&recM, opts...)
				_, _ = rerr, merr
				// key flattening and diffing
				keys := cfg.FlattenedKeys(opts...)
				wantKeys := (&c08cModel{root: generic}).keys(generic, "", nil)
				sort.Strings(wantKeys)
				if fmt.Sprint(keys) != fmt.Sprint(wantKeys) {
					fail("FlattenedKeys", "WRONG-KEYS", fmt.Sprintf("model %v impl %v", wantKeys, keys))
					return
				}
				if d := diff.CompareConfigs(cfg, cfg, opts...); d.HasChanged() {
					fail("CompareConfigs", "DIFF-SELF", fmt.Sprintf("CompareConfigs(c,c) reports changes: %v", d))
					return
				}
				// getters through references
				for _, p := range []string{"a", "b"} {
					if v, ok := wm[p]; ok && !cyclic {
						if l, ok := v.([]interface{}); ok {
							n, err := cfg.CountField(p, opts...)
							if err != nil || n != len(l) {
								fail("CountField", "WRONG-VALUE", fmt.Sprintf("CountField(%q)=(%d,%v), model list of %d", p, n, err, len(l)))
								return
							}
							if s, ok := l[0].(string); ok {
								g, err := cfg.String(p, 0, opts...)
								if err != nil || g != s {
									fail("String", "WRONG-VALUE", fmt.Sprintf("String(%q,0)=(%q,%v), model %q", p, g, err, s))
									return
								}
							}
						}
					}
				}
				res.Nontrivial = true
				res.Outcome = fmt.Sprintf("cyclic=%v", cyclic)
			})
			if pi != nil {
				return apiPanic("c08", pi)
			}
			return res
		},
	}
}

// toGeneric converts M/L literals into plain map[string]interface{} / []interface{}.
func toGeneric(v interface{}) interface{} {
	switch c := v.(type) {
	case map[string]interface{}:
		out := map[string]interface{}{}
		for k, e := range c {
			out[k] = toGeneric(e)
		}
		return out
	case []interface{}:
		out := make([]interface{}, len(c))
		for i, e := range c {
			out[i] = toGeneric(e)
		}
		return out
	}
	return v
}
