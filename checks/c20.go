package checks

import (
	"fmt"
	"math"
	"reflect"
	"strconv"
	"strings"

	ucfg "github.com/elastic/go-ucfg"

	"verif/internal/core"
	"verif/internal/fp"
)

// C20: numeric path segments index lists only within [0, MaxIdx].

var c20Sigma = []string{"0", "1", "9", "_", "x", "b", "o", "+", "-", ".", "a", " "}

func c20Strings(maxLen int) []string {
	var out []string
	cur := []string{""}
	for l := 1; l <= maxLen; l++ {
		var nx []string
		for _, s := range cur {
			for _, c := range c20Sigma {
				nx = append(nx, s+c)
			}
		}
		out = append(out, nx...)
		cur = nx
	}
	return out
}

func c20Spellings(maxIdxs []int64) []string {
	seen := map[string]bool{}
	var out []string
	add := func(s string) {
		if !seen[s] {
			seen[s] = true
			out = append(out, s)
		}
	}
	var vals []uint64
	for _, m := range maxIdxs {
		for _, d := range []int64{-1, 0, 1} {
			if m+d >= 0 {
				vals = append(vals, uint64(m+d))
			}
		}
	}
	vals = append(vals, 1<<31, math.MaxInt64, 1<<63, math.MaxUint64, 1023, 1024, 1025, 2000)
	for _, v := range vals {
		d := strconv.FormatUint(v, 10)
		add(d)
		add("+" + d)
		add("-" + d)
		add("0x" + strconv.FormatUint(v, 16))
		add("0X" + strings.ToUpper(strconv.FormatUint(v, 16)))
		add("0o" + strconv.FormatUint(v, 8))
		add("0" + strconv.FormatUint(v, 8))
		add("0b" + strconv.FormatUint(v, 2))
		add("00" + d)
		if len(d) > 1 {
			add(d[:1] + "_" + d[1:])
		}
		add(d + ".0")
		add(d + "e0")
		add(" " + d)
	}
	add("18446744073709551616")
	add("99999999999999999999999")
	add("-9223372036854775808")
	add("-9223372036854775809")
	add("-0")
	add("0x")
	add("١")
	return out
}

type c20Site int

const (
	siteMapKey c20Site = iota
	siteDottedLast
	siteDottedFirst
	siteDottedMiddle
	siteStructTag
	siteSetter
	siteUnpackTag
	siteRefOperator // the key as the name of ${key:default}, ${key:+alt} and of a computed reference ${${k}}
	siteSetterIdx   // the number as idx argument of a setter on a list that has entries already / does not exist yet
	siteCrossOpts   // written under one set of index options, read under another: the reading call's options decide
	siteNameWithIdx // the key as name argument together with an index argument (name, 1)
	numC20Sites
)

func (s c20Site) String() string {
	return [...]string{"single map key", "last segment of a dotted key", "first segment of a dotted key", "middle segment of a dotted key", "struct tag", "name argument of SetString/String/Has/Remove", "struct tag of an Unpack target", "name in ${key:d}, ${key:+a} and ${${k}}", "idx argument of a setter on a non-empty list", "key written under other index options than it is read with", "name argument next to an index argument of SetString/String/Has"}[s]
}

func c20Space(name string, strs []string) *core.Space {
	maxIdxs := []int64{1024, 0, 1, 5, -1}
	radices := []int{len(strs), len(maxIdxs), 2, int(numC20Sites)}
	dec := func(i int) (string, int64, bool, c20Site) {
		d := mixedRadix(i, radices...)
		return strs[d[0]], maxIdxs[d[1]], d[2] == 1, c20Site(d[3])
	}
	return &core.Space{
		Name: name,
		Size: product(radices...),
		Text: func(i int) string {
			s, m, nk, site := dec(i)
			return fmt.Sprintf("key %q as %v, MaxIdx(%d), EnableNumKeys(%v)", s, site, m, nk)
		},
		Exec: func(i int) core.Result {
			s, maxIdx, numKeys, site := dec(i)
			dotted := site == siteDottedLast || site == siteDottedFirst || site == siteDottedMiddle
			if dotted && strings.Contains(s, ".") {
				return core.Result{Skipped: true} // the string would be split into several segments
			}
			if (site == siteStructTag || site == siteUnpackTag) && (strings.ContainsAny(s, ",\"`") || s == "") {
				return core.Result{Skipped: true}
			}
			if site == siteRefOperator || site == siteSetterIdx || site == siteCrossOpts || site == siteNameWithIdx {
				return c20ExtraSite(site, s, maxIdx, numKeys)
			}
			// oracle
			singleSegment := !dotted
			v, perr := strconv.ParseInt(s, 0, 64)
			isIndex := !(numKeys && singleSegment) && perr == nil && v >= 0 && v <= maxIdx
			var res core.Result
			pi := core.Guard(func() {
				opts := []ucfg.Option{ucfg.MaxIdx(maxIdx), ucfg.EnableNumKeys(numKeys)}
				var cfg *ucfg.Config
				var err error
				parentPath := []string{}
				below := ""
				switch site {
				case siteMapKey:
					cfg, err = ucfg.NewFrom(M{s: "v"}, opts...)
				case siteDottedLast:
					opts = append(opts, ucfg.PathSep("."))
					cfg, err = ucfg.NewFrom(M{"p." + s: "v"}, opts...)
					parentPath = []string{"p"}
				case siteDottedFirst:
					opts = append(opts, ucfg.PathSep("."))
					cfg, err = ucfg.NewFrom(M{s + ".q": "v"}, opts...)
					below = "q"
				case siteDottedMiddle:
					opts = append(opts, ucfg.PathSep("."))
					cfg, err = ucfg.NewFrom(M{"p." + s + ".q": "v"}, opts...)
					parentPath = []string{"p"}
					below = "q"
				case siteStructTag:
					st := reflect.New(reflect.StructOf([]reflect.StructField{{Name: "F", Type: reflect.TypeOf(""), Tag: reflect.StructTag(fmt.Sprintf(`config:"%s"`, s))}})).Elem()
					st.Field(0).SetString("v")
					cfg, err = ucfg.NewFrom(st.Interface(), opts...)
				case siteSetter:
					cfg = ucfg.New()
					err = cfg.SetString(s, -1, "v", opts...)
				case siteUnpackTag:
					cfg, err = ucfg.NewFrom(M{s: "v"}, opts...)
					if err == nil {
						st := reflect.New(reflect.StructOf([]reflect.StructField{{Name: "F", Type: reflect.TypeOf(""), Tag: reflect.StructTag(fmt.Sprintf(`config:"%s"`, s))}}))
						if uerr := cfg.Unpack(st.Interface(), opts...); uerr != nil || st.Elem().Field(0).String() != "v" {
							res = core.Fail("c20", "UNPACK-TAG "+fmt.Sprintf("numkeys=%v", numKeys)+" "+keyClass(s, perr, v, maxIdx), fmt.Sprintf("config built from key %q, Unpack into a field tagged %q under the same options gives (%q, %v)", s, s, st.Elem().Field(0).String(), uerr))
							return
						}
					}
				}
				cls := fmt.Sprintf("%v numkeys=%v", site, numKeys)
				if err != nil {
					if site == siteSetter && s == "" {
						res.Skipped = true // empty name without index: no address
						return
					}
					res = core.Fail("c20", "REJECTED "+cls+" "+keyClass(s, perr, v, maxIdx), fmt.Sprintf("key %q: %v", s, firstLine(err.Error())))
					return
				}
				// no list part anywhere may exceed MaxIdx+1 entries
				if n := c20MaxList(cfg); int64(n) > maxIdx+1 {
					res = core.Fail("c20", "LIST-EXCEEDS-MAXIDX "+cls, fmt.Sprintf("key %q produced a list of %d entries with MaxIdx %d", s, n, maxIdx))
					return
				}
				node := cfg
				for _, p := range parentPath {
					node, err = node.Child(p, -1)
					if err != nil {
						res = core.Fail("c20", "PARENT-MISSING "+cls, err.Error())
						return
					}
				}
				read := func(c *ucfg.Config, name string, idx int) (string, error) {
					if below == "" {
						return c.String(name, idx)
					}
					ch, err := c.Child(name, idx)
					if err != nil {
						return "", err
					}
					return ch.String(below, -1)
				}
				if isIndex {
					n, _ := node.CountField("")
					if !node.IsArray() || node.IsDict() || int64(n) != v+1 {
						res = core.Fail("c20", "INDEX-EXPECTED "+cls+" "+keyClass(s, perr, v, maxIdx), fmt.Sprintf("key %q is index %d: expected a list of %d entries, got array=%v dict=%v entries=%d fields=%v", s, v, v+1, node.IsArray(), node.IsDict(), n, node.GetFields()))
						return
					}
					got, err := read(node, "", int(v))
					if err != nil || got != "v" {
						res = core.Fail("c20", "INDEX-VALUE "+cls, fmt.Sprintf("element %d reads (%q,%v)", v, got, err))
						return
					}
					for j := 0; j < int(v) && j < 3; j++ {
						if sj, err := node.String("", j); err == nil && sj != "null" {
							res = core.Fail("c20", "INDEX-PADDING "+cls, fmt.Sprintf("element %d in front of the value is not nil: %q", j, sj))
							return
						}
					}
					res.Outcome = "index"
				} else {
					fields := node.GetFields()
					if node.IsArray() || len(fields) != 1 || fields[0] != s {
						res = core.Fail("c20", "NAME-EXPECTED "+cls+" "+keyClass(s, perr, v, maxIdx), fmt.Sprintf("key %q is an ordinary name: expected a dict with exactly this field, got array=%v fields=%q", s, node.IsArray(), fields))
						return
					}
					// reads back under the same name through the same options
					var got string
					var err error
					switch {
					case site == siteSetter || site == siteMapKey || site == siteStructTag || site == siteUnpackTag:
						got, err = cfg.String(s, -1, opts...)
						if err == nil && site == siteSetter {
							has, herr := cfg.Has(s, -1, opts...)
							rem, rerr := cfg.Remove(s, -1, opts...)
							if !has || herr != nil || !rem || rerr != nil {
								res = core.Fail("c20", "NAME-HAS-REMOVE "+cls, fmt.Sprintf("Has=(%v,%v) Remove=(%v,%v)", has, herr, rem, rerr))
								return
							}
						}
					default:
						full := strings.Join(append(append([]string{}, parentPath...), s), ".")
						if below != "" {
							full += "." + below
						}
						got, err = cfg.String(full, -1, opts...)
					}
					if err != nil || got != "v" {
						res = core.Fail("c20", "NAME-ROUNDTRIP "+cls+" "+keyClass(s, perr, v, maxIdx), fmt.Sprintf("reading %q back gives (%q,%v)", s, got, err))
						return
					}
					res.Outcome = "name"
				}
				res.Nontrivial = perr == nil || strings.ContainsAny(s, "0123456789")
			})
			if pi != nil {
				return apiPanic("c20", pi)
			}
			return res
		},
	}
}

// c20ExtraSite: sites whose oracle is not "index or name" of a freshly built config.
func c20ExtraSite(site c20Site, s string, maxIdx int64, numKeys bool) core.Result {
	var res core.Result
	v, perr := strconv.ParseInt(s, 0, 64)
	pi := core.Guard(func() {
		opts := []ucfg.Option{ucfg.MaxIdx(maxIdx), ucfg.EnableNumKeys(numKeys)}
		switch site {
		case siteRefOperator:
			// whatever the key is (index or name), a reference spelled with the same text under
			// the same options finds the value stored under it
			if s == "" || strings.ContainsAny(s, "${}:. \t\n\"'\\,[]") || strings.HasPrefix(s, "zz") {
				res.Skipped = true
				return
			}
			o := append([]ucfg.Option{ucfg.VarExp}, opts...)
			cfg, err := ucfg.NewFrom(M{s: "v", "zzd": "${" + s + ":fb}", "zza": "${" + s + ":+alt}", "zzn": "${${zzk}}", "zzk": s, "zzp": "${" + s + "}"}, o...)
			if err != nil {
				res.Skipped = true // (rejected keys are judged by the single-map-key site)
				return
			}
			for _, probe := range [][2]string{{"zzp", "v"}, {"zzd", "v"}, {"zza", "alt"}, {"zzn", "v"}} {
				got, err := cfg.String(probe[0], -1, o...)
				if err != nil || got != probe[1] {
					res = core.Fail("c20", fmt.Sprintf("REFERENCE-BY-KEY %s numkeys=%v %s", probe[0], numKeys, keyClass(s, perr, v, maxIdx)), fmt.Sprintf("{%q: \"v\", %s: %q}: reading %s gives (%q, %v), expected %q", s, probe[0], map[string]string{"zzp": "${" + s + "}", "zzd": "${" + s + ":fb}", "zza": "${" + s + ":+alt}", "zzn": "${${zzk}} with zzk: " + s}[probe[0]], probe[0], got, err, probe[1]))
					return
				}
			}
			res.Nontrivial = perr == nil
			res.Outcome = "reference"
		case siteNameWithIdx:
			// SetString(key, 1, "w"): the index argument does not change what the name is - an
			// index (the root becomes a list of key+1 entries whose last one is a list) or a
			// name (a named list of two entries)
			if s == "" || strings.Contains(s, ".") {
				res.Skipped = true
				return
			}
			if maxIdx < 1 {
				res.Skipped = true // (the index argument 1 itself is out of range)
				return
			}
			isIndex := !numKeys && perr == nil && v >= 0 && v <= maxIdx
			cfg := ucfg.New()
			if err := cfg.SetString(s, 1, "w", opts...); err != nil {
				res = core.Fail("c20", fmt.Sprintf("NAME-WITH-IDX rejected numkeys=%v %s", numKeys, keyClass(s, perr, v, maxIdx)), fmt.Sprintf("SetString(%q, 1): %v", s, firstLine(err.Error())))
				return
			}
			n, _ := cfg.CountField("")
			if isIndex {
				if !cfg.IsArray() || cfg.IsDict() || int64(n) != v+1 {
					res = core.Fail("c20", fmt.Sprintf("NAME-WITH-IDX index-expected numkeys=%v %s", numKeys, keyClass(s, perr, v, maxIdx)), fmt.Sprintf("SetString(%q, 1): expected a root list of %d entries, got array=%v dict=%v entries=%d fields=%v", s, v+1, cfg.IsArray(), cfg.IsDict(), n, cfg.GetFields()))
					return
				}
			} else {
				f := cfg.GetFields()
				got, gerr := cfg.String(s, 1, opts...)
				has, _ := cfg.Has(s, 1, opts...)
				if cfg.IsArray() || len(f) != 1 || f[0] != s || gerr != nil || got != "w" || !has {
					res = core.Fail("c20", fmt.Sprintf("NAME-WITH-IDX name-expected numkeys=%v %s", numKeys, keyClass(s, perr, v, maxIdx)), fmt.Sprintf("SetString(%q, 1): expected a list named %q, got array=%v fields=%v; String(%q, 1)=(%q,%v) Has=%v", s, s, cfg.IsArray(), f, s, got, gerr, has))
					return
				}
			}
			if m := c20MaxList(cfg); int64(m) > maxIdx+1 {
				res = core.Fail("c20", "LIST-EXCEEDS-MAXIDX name with idx", fmt.Sprintf("a list of %d entries with MaxIdx %d", m, maxIdx))
				return
			}
			res.Nontrivial = perr == nil
			res.Outcome = "name-with-idx"
		case siteCrossOpts:
			// the config holds the key as a NAME (written with numeric keys enabled) and a list
			// entry written under the reading options; every reader decides by its own options
			if s == "" || perr != nil || v < 0 || v > 8 {
				res.Skipped = true
				return
			}
			cfg, err := ucfg.NewFrom(M{s: "named"}, ucfg.EnableNumKeys(true))
			if err != nil {
				res.Skipped = true
				return
			}
			readIsIndex := !numKeys && v <= maxIdx
			if err := cfg.SetString(s, -1, "listed", opts...); err != nil {
				res = core.Fail("c20", "CROSS-OPTIONS write", fmt.Sprintf("SetString(%q) under the reading options: %v", s, err))
				return
			}
			want := "listed"
			got, gerr := cfg.String(s, -1, opts...)
			has, herr := cfg.Has(s, -1, opts...)
			if gerr != nil || got != want || herr != nil || !has {
				res = core.Fail("c20", fmt.Sprintf("CROSS-OPTIONS read index=%v", readIsIndex), fmt.Sprintf("{%q: named} written with EnableNumKeys, then SetString(%q)=listed and String/Has under MaxIdx(%d) EnableNumKeys(%v): String=(%q,%v) Has=(%v,%v); expected the value just written", s, s, maxIdx, numKeys, got, gerr, has, herr))
				return
			}
			// the name written first is still there exactly when the reader's options make s an index
			named, nerr := cfg.String(s, -1, ucfg.EnableNumKeys(true))
			if readIsIndex && (nerr != nil || named != "named") {
				res = core.Fail("c20", "CROSS-OPTIONS name lost", fmt.Sprintf("the name %q written first reads (%q,%v) with EnableNumKeys after a list entry was written at index %d", s, named, nerr, v))
				return
			}
			if ch, err := cfg.Child("", -1); err == nil && ch != nil {
				_ = ch
			}
			// getters of other types agree with Has
			if _, ierr := cfg.Int(s, -1, opts...); ierr == nil {
				res = core.Fail("c20", "CROSS-OPTIONS int", "Int of the string value succeeded")
				return
			}
			cfg2, _ := ucfg.NewFrom(M{s: 42}, ucfg.EnableNumKeys(true))
			h2, _ := cfg2.Has(s, -1, opts...)
			n2, e2 := cfg2.Int(s, -1, opts...)
			if readIsIndex && (h2 || e2 == nil) {
				res = core.Fail("c20", "CROSS-OPTIONS getter-vs-has", fmt.Sprintf("{%q: 42} holds a name; read as index %d: Has=%v Int=(%d,%v) - nothing is stored at that index", s, v, h2, n2, e2))
				return
			}
			if !readIsIndex && (!h2 || e2 != nil || n2 != 42) {
				res = core.Fail("c20", "CROSS-OPTIONS getter-vs-has", fmt.Sprintf("{%q: 42} read as a name: Has=%v Int=(%d,%v)", s, h2, n2, e2))
				return
			}
			res.Nontrivial = true
			res.Outcome = fmt.Sprintf("cross index=%v", readIsIndex)
		case siteSetterIdx:
			if perr != nil || v < 0 || v > 1<<40 {
				res.Skipped = true
				return
			}
			have := int64(3)
			if maxIdx+1 < have {
				have = maxIdx + 1
			}
			if have < 0 {
				have = 0
			}
			l := make(L, have)
			for i := range l {
				l[i] = "x"
			}
			cfg, err := ucfg.NewFrom(M{"a": l, "d": M{"l": l}})
			if err != nil {
				panic("harness: " + err.Error())
			}
			full := have
			// (also lists that do not exist yet: below the top level, below an object, below a missing path)
			for _, target := range []string{"a", "d.l", "n", "d.n", "m.q"} {
				have := full
				if target != "a" && target != "d.l" {
					have = 0
				}
				o := append([]ucfg.Option{ucfg.PathSep(".")}, opts...)
				serr := cfg.SetString(target, int(v), "w", o...)
				n, cerr := cfg.CountField(target, ucfg.PathSep("."))
				if cerr != nil {
					n = 0
				}
				if v <= maxIdx {
					want := have
					if v+1 > want {
						want = v + 1
					}
					if serr != nil || int64(n) != want {
						res = core.Fail("c20", "SETTER-IDX in-range", fmt.Sprintf("SetString(%q, %d) on a list of %d with MaxIdx(%d): err=%v, entries=%d (expected %d)", target, v, have, maxIdx, serr, n, want))
						return
					}
				} else if serr == nil || int64(n) != have {
					res = core.Fail("c20", "SETTER-IDX above-maxidx", fmt.Sprintf("SetString(%q, %d) on a list of %d with MaxIdx(%d): err=%v, entries=%d (expected an error and %d entries)", target, v, have, maxIdx, serr, n, have))
					return
				}
			}
			if n := c20MaxList(cfg); int64(n) > maxIdx+1 && int64(n) > full {
				res = core.Fail("c20", "LIST-EXCEEDS-MAXIDX setter idx", fmt.Sprintf("a list of %d entries with MaxIdx %d", n, maxIdx))
				return
			}
			res.Nontrivial = true
			res.Outcome = "setter-idx"
		}
	})
	if pi != nil {
		return apiPanic("c20", pi)
	}
	return res
}

func keyClass(s string, perr error, v, maxIdx int64) string {
	switch {
	case perr != nil:
		return "non-integer"
	case v < 0:
		return "negative"
	case v > maxIdx:
		return "above-maxidx"
	}
	return "in-range"
}

// c20MaxList returns the longest list part found in the private state (reflective walker).
func c20MaxList(c *ucfg.Config) int { return fp.MaxList(c) }

func init() {
	core.Register(&core.Check{
		ID:    "C20",
		Level: "exploration",
		Rule:  "every string of length <=4 (thorough <=5) over {0,1,9,_,x,b,o,+,-,.,a,blank} plus the decimal, signed, hex, octal, binary, zero-padded, underscored and near-numeric spellings of {MaxIdx-1, MaxIdx, MaxIdx+1, 2^31, 2^63-1, 2^63, 2^64-1, ...} x MaxIdx in {1024, 0, 1, 5, -1} x EnableNumKeys x 7 use sites (single map key; first, middle, last segment of a dotted key; struct tag of a merge source; struct tag of an Unpack target; name argument of SetString/String/Has/Remove). Oracle: index <=> not(EnableNumKeys and single segment) and ParseInt(s,0,64) in [0,MaxIdx]; index => list of exactly v+1 entries, value at v, nils in front; otherwise a dict whose only field is s unchanged and which reads back under s; no list part longer than MaxIdx+1 anywhere (reflective walker); non-trivial = the string parses as an integer or contains a digit",
		Assumptions: []string{
			"strings containing the separator are skipped at dotted use sites (they are several segments); strings that cannot be written into a struct tag are skipped there",
		},
		Spaces: func(tier string) []*core.Space {
			sp := c20Spellings([]int64{1024, 0, 1, 5})
			if tier == "thorough" {
				return []*core.Space{c20Space("spellings", sp), c20Space("strings<=5", c20Strings(5))}
			}
			return []*core.Space{c20Space("spellings", sp), c20Space("strings<=4", c20Strings(4))}
		},
	})
}
