package checks

import (
	"fmt"
	"reflect"
	"sort"
	"strings"

	ucfg "github.com/elastic/go-ucfg"
	"github.com/elastic/go-ucfg/diff"

	"verif/internal/core"
	"verif/internal/fp"
	"verif/internal/tree"
)

// C12 / C15: explicit-state search over histories of path-addressed operations.
// A state is the history that reaches it (replayed on a fresh config); states are
// deduplicated by the canonical fingerprint of the implementation's heap graph plus
// the model state. In every state the oracle of the property is evaluated:
//   C12: every getter / Has / CountField / IsDict / IsArray / Child / Unpack agrees
//        with the model tree subjected to the same operations;
//   C15: Path / Parent / FlattenedKeys / CompareConfigs describe the model structure.

type addr struct {
	Name string
	Idx  int
	Sep  bool
}

func (a addr) String() string {
	s := fmt.Sprintf("(%q,%d)", a.Name, a.Idx)
	if a.Sep {
		return s + "+PathSep"
	}
	return s
}

func (a addr) opts() []ucfg.Option {
	if a.Sep {
		return []ucfg.Option{ucfg.PathSep(".")}
	}
	return nil
}

func (a addr) segs() []tree.Seg {
	sep := ""
	if a.Sep {
		sep = "."
	}
	return tree.ParseAddr(a.Name, a.Idx, sep)
}

type pathOpKind int

const (
	opSetString pathOpKind = iota
	opSetInt
	opSetChild
	opRemove
	opMerge
	opHandle    // H = Child(addr)
	opHSet      // H.SetString(addr)
	opHSetChild // H.SetChild(addr)
	opHRemove   // H.Remove(addr)
	opReattach  // h := Child(a); Remove(a); SetChild(addr, h)   (C15: re-attached children)
	opMergeOwn  // Merge({to: Child(from)}): copy a subtree of the config to another key of the same config
	opMergeList // Merge([l, {x:l}, [l]], policy): a list merged into the root itself
	opHMerge    // H.Merge(list or dict, policy): the receiver is a child that holds the list/dict itself
	opMergeLive // Merge(Child(x)): a live sub-config of the same tree passed directly as the source
)

type pathOp struct {
	Kind   pathOpKind
	A      addr
	Policy tree.Policy
	Label  string
	From   addr // opReattach: where the child is taken from
}

func (o pathOp) String() string {
	switch o.Kind {
	case opSetString:
		return fmt.Sprintf("SetString%v=%s", o.A, o.Label)
	case opSetInt:
		return fmt.Sprintf("SetInt%v=%s", o.A, o.Label)
	case opSetChild:
		return fmt.Sprintf("SetChild%v={x:%s}", o.A, o.Label)
	case opRemove:
		return fmt.Sprintf("Remove%v", o.A)
	case opMerge:
		return fmt.Sprintf("Merge({a:[%s],b:{x:%s}},%s)", o.Label, o.Label, o.Policy)
	case opHandle:
		return fmt.Sprintf("H=Child%v", o.A)
	case opHSet:
		return fmt.Sprintf("H.SetString%v=%s", o.A, o.Label)
	case opHSetChild:
		return fmt.Sprintf("H.SetChild%v={x:%s}", o.A, o.Label)
	case opHRemove:
		return fmt.Sprintf("H.Remove%v", o.A)
	case opReattach:
		if o.Label == "overwrite" {
			return fmt.Sprintf("h:=Child%v;SetString%v=OW;SetChild%v=h", o.From, o.From, o.A)
		}
		if o.Label == "overwrite-child" {
			return fmt.Sprintf("h:=Child%v;SetChild%v={ow:OW};SetChild%v=h", o.From, o.From, o.A)
		}
		if o.Label == "null" {
			return fmt.Sprintf("h:=Child%v (a null setting);SetChild%v=h", o.From, o.A)
		}
		switch o.Label {
		case "merge-primitive":
			return fmt.Sprintf("h:=Child%v;Merge({%s:OW});SetChild%v=h", o.From, o.From.Name, o.A)
		case "merge-dict":
			return fmt.Sprintf("h:=Child%v;Merge({%s:{ow:OW}});SetChild%v=h", o.From, o.From.Name, o.A)
		case "merge-replace":
			return fmt.Sprintf("h:=Child%v;Merge({zz:OW},replace);SetChild%v=h", o.From, o.A)
		}
		return fmt.Sprintf("h:=Child%v;Remove%v;SetChild%v=h", o.From, o.From, o.A)
	case opMergeOwn:
		return fmt.Sprintf("Merge({%s:Child%v})", o.A.Name, o.From)
	case opMergeList:
		return fmt.Sprintf("Merge([%s,{x:%s},[%s]],%s)", o.Label, o.Label, o.Label, o.Policy)
	case opHMerge:
		if o.A.Idx == 0 {
			return fmt.Sprintf("H.Merge([%s,{x:%s},[%s]],%s)", o.Label, o.Label, o.Label, o.Policy)
		}
		return fmt.Sprintf("H.Merge({x:%s,l:[%s]},%s)", o.Label, o.Label, o.Policy)
	case opMergeLive:
		switch o.A.Idx {
		case 0, 1:
			return fmt.Sprintf("Merge(Child%v)", o.From)
		}
		return "H.Merge(Child(the other top-level key))"
	}
	return "?"
}

type pathUniverse struct {
	ops   []pathOp
	addrs []addr // observation addresses
	prop  string
	// populated: histories start from a config holding a 4-element list and nested lists of
	// objects (instead of the empty config), so that depth-3 histories reach states like
	// "two removals, then a write" on long lists
	populated bool
}

func (u *pathUniverse) initial() *pathState {
	if !u.populated {
		return &pathState{root: ucfg.New(), mroot: tree.New()}
	}
	root, err := ucfg.NewFrom(map[string]interface{}{
		"a": []interface{}{"A0", "A1", "A2", "A3"},
		"b": map[string]interface{}{"x": "BX", "l": []interface{}{map[string]interface{}{"y": "Y0"}, map[string]interface{}{"y": "Y1"}, []interface{}{"Z0"}}},
	})
	if err != nil {
		panic(err)
	}
	m := tree.Dict(
		"a", tree.List(tree.LeafN("A0"), tree.LeafN("A1"), tree.LeafN("A2"), tree.LeafN("A3")),
		"b", tree.Dict("x", tree.LeafN("BX"), "l", tree.List(tree.Dict("y", tree.LeafN("Y0")), tree.Dict("y", tree.LeafN("Y1")), tree.List(tree.LeafN("Z0")))))
	return &pathState{root: root, mroot: m}
}

func buildPathUniverse(prop string, rich bool) *pathUniverse {
	u := &pathUniverse{prop: prop}
	var waddrs []addr
	for _, n := range []string{"a", "b", "a.a", "a.b", "a.0", "a.1", "a.0.a"} {
		for _, i := range []int{-1, 0, 1} {
			waddrs = append(waddrs, addr{n, i, true})
		}
	}
	waddrs = append(waddrs, addr{"a", 2, true}, addr{"", 0, true}, addr{"", 1, true})
	// a write skipping positions, and writes the index limit rejects (they must leave no trace)
	waddrs = append(waddrs, addr{"a", 3, true}, addr{"n.m", 2000, true}, addr{"a.0.n", 1025, true})
	for _, n := range []string{"a", "b", "a.b", "0"} {
		for _, i := range []int{-1, 0} {
			waddrs = append(waddrs, addr{n, i, false})
		}
	}
	u.addrs = append(u.addrs, waddrs...)
	u.addrs = append(u.addrs, addr{"b.x", -1, true}, addr{"a.2", -1, true}, addr{"b", 1, false}, addr{"", 2, false}, addr{"n", -1, true}, addr{"n.m", -1, true}, addr{"a.0.n", -1, true}, addr{"a", 4, true})
	for i, a := range waddrs {
		u.ops = append(u.ops, pathOp{Kind: opSetString, A: a, Label: fmt.Sprintf("S%d", i)})
	}
	for i, a := range waddrs {
		if prop == "C12" && !rich && i%3 != 0 {
			continue
		}
		u.ops = append(u.ops, pathOp{Kind: opSetChild, A: a, Label: fmt.Sprintf("C%d", i)})
	}
	for _, a := range waddrs {
		u.ops = append(u.ops, pathOp{Kind: opRemove, A: a})
	}
	for i, a := range []addr{{"a", -1, true}, {"a.0", -1, true}, {"b", 0, false}} {
		u.ops = append(u.ops, pathOp{Kind: opSetInt, A: a, Label: fmt.Sprint(100 + i)})
	}
	for i, p := range []tree.Policy{tree.Default, tree.Append, tree.Prepend} {
		u.ops = append(u.ops, pathOp{Kind: opMerge, Policy: p, Label: fmt.Sprintf("M%d", i)})
	}
	for i, p := range []tree.Policy{tree.Default, tree.Append, tree.Prepend} {
		u.ops = append(u.ops, pathOp{Kind: opMergeList, Policy: p, Label: fmt.Sprintf("ML%d", i)})
		// (A.Idx selects the shape of the source: 0 list, 1 dict)
		u.ops = append(u.ops, pathOp{Kind: opHMerge, Policy: p, Label: fmt.Sprintf("HL%d", i), A: addr{"", 0, false}})
		u.ops = append(u.ops, pathOp{Kind: opHMerge, Policy: p, Label: fmt.Sprintf("HD%d", i), A: addr{"", 1, false}})
	}
	u.ops = append(u.ops, pathOp{Kind: opMergeLive, From: addr{"b", -1, false}, A: addr{"", 0, false}})
	u.ops = append(u.ops, pathOp{Kind: opMergeLive, From: addr{"a", -1, false}, A: addr{"", 1, false}})
	u.ops = append(u.ops, pathOp{Kind: opMergeLive, A: addr{"", 2, false}})
	for _, a := range []addr{{"a", -1, true}, {"a", 0, true}, {"b", -1, false}} {
		u.ops = append(u.ops, pathOp{Kind: opHandle, A: a})
	}
	for i, a := range []addr{{"x", -1, false}, {"", 0, false}, {"", 1, false}, {"a.x", -1, true}} {
		u.ops = append(u.ops, pathOp{Kind: opHSet, A: a, Label: fmt.Sprintf("H%d", i)})
	}
	u.ops = append(u.ops, pathOp{Kind: opHSetChild, A: addr{"y", -1, false}, Label: "HC"})
	for _, a := range []addr{{"x", -1, false}, {"", 0, false}} {
		u.ops = append(u.ops, pathOp{Kind: opHRemove, A: a})
	}
	for _, p := range [][2]addr{{{"a", -1, true}, {"b", -1, true}}, {{"a", 0, true}, {"b", -1, true}}, {{"b", -1, true}, {"a", -1, true}}} {
		u.ops = append(u.ops, pathOp{Kind: opMergeOwn, From: p[0], A: p[1]})
	}
	if prop == "C15" {
		for _, p := range [][2]addr{{{"a", -1, true}, {"b", -1, true}}, {{"a", 0, true}, {"b", -1, true}}, {{"a.a", -1, true}, {"b", 0, true}}} {
			u.ops = append(u.ops, pathOp{Kind: opReattach, From: p[0], A: p[1]})
		}
		for _, p := range [][2]addr{{{"a", -1, true}, {"b", -1, true}}, {{"a", 0, true}, {"b", -1, true}}, {{"b", -1, true}, {"a.a", -1, true}}} {
			u.ops = append(u.ops, pathOp{Kind: opReattach, From: p[0], A: p[1], Label: "overwrite"})
		}
		// the handle Child returns for a null setting, attached somewhere else
		for _, p := range [][2]addr{{{"b", 0, true}, {"a", -1, true}}, {{"a", 0, true}, {"b", -1, true}}} {
			u.ops = append(u.ops, pathOp{Kind: opReattach, From: p[0], A: p[1], Label: "null"})
		}
		// ... and overwritten by another sub-config before it is attached again
		for _, p := range [][2]addr{{{"a", -1, true}, {"b", -1, true}}, {{"a", 0, true}, {"a", 1, true}}} {
			u.ops = append(u.ops, pathOp{Kind: opReattach, From: p[0], A: p[1], Label: "overwrite-child"})
		}
		// ... and replaced by a Merge on the root before it is attached again
		for _, l := range []string{"merge-primitive", "merge-dict", "merge-replace"} {
			for _, p := range [][2]addr{{{"a", -1, true}, {"b", -1, true}}, {{"b", -1, true}, {"a", 0, true}}, {{"a", -1, true}, {"c", -1, true}}} {
				u.ops = append(u.ops, pathOp{Kind: opReattach, From: p[0], A: p[1], Label: l})
			}
		}
	}
	return u
}

// pathState is the pair (implementation, model) reached by a history.
type pathState struct {
	root   *ucfg.Config
	h      *ucfg.Config
	mroot  *tree.Node
	mh     *tree.Node
	mhPath string // informational
}

func labelChildCfg(label string) *ucfg.Config {
	c, err := ucfg.NewFrom(map[string]interface{}{"x": label})
	if err != nil {
		panic(err)
	}
	return c
}

func labelChildModel(label string) *tree.Node {
	return &tree.Node{K: tree.Cont, D: map[string]*tree.Node{"x": tree.LeafN(label)}}
}

// apply performs op on both sides and compares the op's own return value.
func (st *pathState) apply(o pathOp) *core.Violation {
	bad := func(what, detail string) *core.Violation {
		return &core.Violation{Sub: "op-result", Sig: fmt.Sprintf("OPRESULT %s %s", opKindName(o.Kind), what), Detail: fmt.Sprintf("%v: %s", o, detail)}
	}
	setBoth := func(c *ucfg.Config, m *tree.Node, do func() error, val *tree.Node) *core.Violation {
		if c == nil {
			return nil
		}
		err := do()
		ok := tree.Set(m, o.A.segs(), val)
		if ok != (err == nil) {
			return bad("ok-mismatch", fmt.Sprintf("model ok=%v impl err=%v", ok, err))
		}
		return nil
	}
	switch o.Kind {
	case opSetString:
		return setBoth(st.root, st.mroot, func() error { return st.root.SetString(o.A.Name, o.A.Idx, o.Label, o.A.opts()...) }, tree.LeafN(o.Label))
	case opSetInt:
		var n int64
		fmt.Sscan(o.Label, &n)
		return setBoth(st.root, st.mroot, func() error { return st.root.SetInt(o.A.Name, o.A.Idx, n, o.A.opts()...) }, tree.LeafN(n))
	case opSetChild:
		return setBoth(st.root, st.mroot, func() error {
			return st.root.SetChild(o.A.Name, o.A.Idx, labelChildCfg(o.Label), o.A.opts()...)
		}, labelChildModel(o.Label))
	case opRemove:
		removed, err := st.root.Remove(o.A.Name, o.A.Idx, o.A.opts()...)
		mrem, mok := tree.Remove(st.mroot, o.A.segs())
		if mok != (err == nil) || (mok && mrem != removed) {
			return bad("mismatch", fmt.Sprintf("model (removed=%v ok=%v) impl (removed=%v err=%v)", mrem, mok, removed, err))
		}
	case opMerge:
		src := map[string]interface{}{"a": []interface{}{o.Label}, "b": map[string]interface{}{"x": o.Label}}
		msrc := tree.Dict("a", tree.List(tree.LeafN(o.Label)), "b", tree.Dict("x", tree.LeafN(o.Label)))
		err := st.root.Merge(src, append([]ucfg.Option{ucfg.PathSep(".")}, policyOpt[o.Policy]...)...)
		if err != nil {
			return bad("error", err.Error())
		}
		st.mroot = tree.Merge(o.Policy, st.mroot, msrc)
		// Merge installs copies: handles taken before are no longer views (not claimed).
		st.h, st.mh = nil, nil
	case opHandle:
		mn, r := tree.Get(st.mroot, o.A.segs())
		c, err := st.root.Child(o.A.Name, o.A.Idx, o.A.opts()...)
		switch {
		case r == tree.OK && mn.K == tree.Cont:
			if err != nil {
				return bad("child-missing", "model has a container there, impl: "+err.Error())
			}
			st.h, st.mh, st.mhPath = c, mn, o.A.String()
		case r == tree.OK && mn.K == tree.Nil:
			// Child of a nil entry: a fresh empty config by construction (undefined as a view)
		default:
			if err == nil {
				return bad("child-unexpected", fmt.Sprintf("model has no container at %v but Child succeeded", o.A))
			}
		}
	case opHSet:
		if st.h == nil {
			return nil
		}
		return setBoth(st.h, st.mh, func() error { return st.h.SetString(o.A.Name, o.A.Idx, o.Label, o.A.opts()...) }, tree.LeafN(o.Label))
	case opHSetChild:
		if st.h == nil {
			return nil
		}
		return setBoth(st.h, st.mh, func() error {
			return st.h.SetChild(o.A.Name, o.A.Idx, labelChildCfg(o.Label), o.A.opts()...)
		}, labelChildModel(o.Label))
	case opHRemove:
		if st.h == nil {
			return nil
		}
		removed, err := st.h.Remove(o.A.Name, o.A.Idx, o.A.opts()...)
		mrem, mok := tree.Remove(st.mh, o.A.segs())
		if mok != (err == nil) || (mok && mrem != removed) {
			return bad("mismatch", fmt.Sprintf("model (removed=%v ok=%v) impl (removed=%v err=%v)", mrem, mok, removed, err))
		}
	case opReattach:
		if o.Label == "null" {
			// Child of a null setting gives an empty config that is not part of the tree; it can
			// be attached like any other config
			mn, r := tree.Get(st.mroot, o.From.segs())
			if r != tree.OK || mn.K != tree.Nil {
				return nil
			}
			if !tree.Set(st.mroot.Clone(), o.A.segs(), tree.NilN()) {
				return nil
			}
			c, err := st.root.Child(o.From.Name, o.From.Idx, o.From.opts()...)
			if err != nil {
				return nil // (the implementation holds no setting there: nothing to take)
			}
			if err := st.root.SetChild(o.A.Name, o.A.Idx, c, o.A.opts()...); err != nil {
				return bad("setchild", err.Error())
			}
			tree.Set(st.mroot, o.A.segs(), tree.New())
			st.h, st.mh = nil, nil
			break
		}
		mn, r := tree.Get(st.mroot, o.From.segs())
		if r != tree.OK || mn.K != tree.Cont {
			return nil
		}
		// the target must be settable and must not lie inside the moved subtree
		probe := st.mroot.Clone()
		tree.Remove(probe, o.From.segs())
		if !tree.Set(probe, o.A.segs(), tree.NilN()) {
			return nil
		}
		c, err := st.root.Child(o.From.Name, o.From.Idx, o.From.opts()...)
		if err != nil {
			return bad("child-missing", err.Error())
		}
		if o.Label == "overwrite" {
			// the child is not removed but overwritten by a primitive before it is attached again
			if err := st.root.SetString(o.From.Name, o.From.Idx, "OW", o.From.opts()...); err != nil {
				return bad("overwrite", err.Error())
			}
			tree.Set(st.mroot, o.From.segs(), tree.LeafN("OW"))
			if !tree.Set(st.mroot.Clone(), o.A.segs(), tree.NilN()) {
				return nil // (not settable any more after the overwrite: model and probe agree on skipping)
			}
		} else if o.Label == "overwrite-child" {
			// the child is overwritten by another sub-config before it is attached again
			if err := st.root.SetChild(o.From.Name, o.From.Idx, mustCfg(M{"ow": "OW"}), o.From.opts()...); err != nil {
				return bad("overwrite-child", err.Error())
			}
			tree.Set(st.mroot, o.From.segs(), tree.Dict("ow", tree.LeafN("OW")))
			if !tree.Set(st.mroot.Clone(), o.A.segs(), tree.NilN()) {
				return nil
			}
		} else if strings.HasPrefix(o.Label, "merge-") {
			// the child is replaced by a Merge on the root (by a primitive, by the merged copy Merge installs,
			// or dropped with all other settings under ReplaceValues) before it is attached again
			if o.From.Idx >= 0 || strings.Contains(o.From.Name, ".") {
				return nil
			}
			var src M
			var msrc *tree.Node
			pol := tree.Default
			switch o.Label {
			case "merge-primitive":
				src, msrc = M{o.From.Name: "OW"}, tree.Dict(o.From.Name, tree.LeafN("OW"))
			case "merge-dict":
				src, msrc = M{o.From.Name: M{"ow": "OW"}}, tree.Dict(o.From.Name, tree.Dict("ow", tree.LeafN("OW")))
			case "merge-replace":
				src, msrc, pol = M{"zz": "OW"}, tree.Dict("zz", tree.LeafN("OW")), tree.Replace
			}
			mn = mn.Clone()
			if err := st.root.Merge(src, append([]ucfg.Option{ucfg.PathSep(".")}, policyOpt[pol]...)...); err != nil {
				return bad("merge-over", err.Error())
			}
			st.mroot = tree.Merge(pol, st.mroot, msrc)
			if o.Label == "merge-dict" {
				// (the merge works in place before the copy is installed: the handle holds the merged contents)
				if m2, r := tree.Get(st.mroot, o.From.segs()); r == tree.OK {
					mn = m2.Clone()
				}
			}
			if !tree.Set(st.mroot.Clone(), o.A.segs(), tree.NilN()) {
				return nil
			}
		} else {
			if _, err := st.root.Remove(o.From.Name, o.From.Idx, o.From.opts()...); err != nil {
				return bad("remove", err.Error())
			}
			tree.Remove(st.mroot, o.From.segs())
		}
		if err := st.root.SetChild(o.A.Name, o.A.Idx, c, o.A.opts()...); err != nil {
			return bad("setchild", err.Error())
		}
		tree.Set(st.mroot, o.A.segs(), mn)
		st.h, st.mh = nil, nil
	case opMergeOwn:
		mn, r := tree.Get(st.mroot, o.From.segs())
		if r != tree.OK || mn.K != tree.Cont {
			return nil
		}
		c, err := st.root.Child(o.From.Name, o.From.Idx, o.From.opts()...)
		if err != nil {
			return bad("child-missing", err.Error())
		}
		if err := st.root.Merge(map[string]interface{}{o.A.Name: c}, ucfg.PathSep(".")); err != nil {
			return bad("error", err.Error())
		}
		st.mroot = tree.Merge(tree.Default, st.mroot, tree.Dict(o.A.Name, mn.Clone()))
		st.h, st.mh = nil, nil
	case opMergeList:
		src := []interface{}{o.Label, map[string]interface{}{"x": o.Label}, []interface{}{o.Label}}
		msrc := tree.List(tree.LeafN(o.Label), tree.Dict("x", tree.LeafN(o.Label)), tree.List(tree.LeafN(o.Label)))
		if err := st.root.Merge(src, append([]ucfg.Option{ucfg.PathSep(".")}, policyOpt[o.Policy]...)...); err != nil {
			return bad("error", err.Error())
		}
		st.mroot = tree.Merge(o.Policy, st.mroot, msrc)
		st.h, st.mh = nil, nil
	case opHMerge:
		if st.h == nil {
			return nil
		}
		var src interface{} = []interface{}{o.Label, map[string]interface{}{"x": o.Label}, []interface{}{o.Label}}
		msrc := tree.List(tree.LeafN(o.Label), tree.Dict("x", tree.LeafN(o.Label)), tree.List(tree.LeafN(o.Label)))
		if o.A.Idx == 1 {
			src = map[string]interface{}{"x": o.Label, "l": []interface{}{o.Label}}
			msrc = tree.Dict("x", tree.LeafN(o.Label), "l", tree.List(tree.LeafN(o.Label)))
		}
		if err := st.h.Merge(src, append([]ucfg.Option{ucfg.PathSep(".")}, policyOpt[o.Policy]...)...); err != nil {
			return bad("error", err.Error())
		}
		// the receiver stays the node of the tree it is (its settings are replaced by copies)
		*st.mh = *tree.Merge(o.Policy, st.mh, msrc)
	case opMergeLive:
		from := o.From
		if o.A.Idx == 2 {
			if st.h == nil {
				return nil
			}
			from = addr{"b", -1, false}
			if strings.HasPrefix(st.mhPath, "b") || strings.HasPrefix(st.mhPath, "(b") || strings.Contains(st.mhPath, "\"b\"") {
				from = addr{"a", -1, false}
			}
		}
		mn, r := tree.Get(st.mroot, from.segs())
		if r != tree.OK || mn.K != tree.Cont {
			return nil
		}
		// a source holding a setting of its own name would be merged into itself on the way: not generated
		if _, self := mn.D[from.Name]; self {
			return nil
		}
		src, err := st.root.Child(from.Name, from.Idx, from.opts()...)
		if err != nil {
			return bad("child-missing", err.Error())
		}
		if o.A.Idx == 2 {
			// the handle must not lie inside the source (nor the source inside the handle)
			if hn, _ := tree.Get(st.mroot, []tree.Seg{{Name: from.Name}}); hn == st.mh {
				return nil
			}
			if err := st.h.Merge(src, ucfg.PathSep(".")); err != nil {
				return bad("error", err.Error())
			}
			*st.mh = *tree.Merge(tree.Default, st.mh, mn.Clone())
			return nil
		}
		if err := st.root.Merge(src, ucfg.PathSep(".")); err != nil {
			return bad("error", err.Error())
		}
		st.mroot = tree.Merge(tree.Default, st.mroot, mn.Clone())
		st.h, st.mh = nil, nil
	}
	return nil
}

func opKindName(k pathOpKind) string {
	return [...]string{"SetString", "SetInt", "SetChild", "Remove", "Merge", "Child", "H.SetString", "H.SetChild", "H.Remove", "Reattach", "MergeOwnChild", "MergeList", "H.Merge", "MergeLiveChild"}[k]
}

// observeC12 compares every observation with the model in the current state.
func (u *pathUniverse) observeC12(st *pathState) *core.Violation {
	bad := func(kind string, a addr, detail string) *core.Violation {
		return &core.Violation{Sub: "observe", Sig: fmt.Sprintf("OBSERVE %s idx%s sep=%v", kind, idxClass(a.Idx), a.Sep), Detail: fmt.Sprintf("at %v: %s", a, detail)}
	}
	for _, a := range u.addrs {
		mn, r := tree.Get(st.mroot, a.segs())
		// Has
		has, herr := st.root.Has(a.Name, a.Idx, a.opts()...)
		switch r {
		case tree.OK:
			if herr != nil || !has {
				return bad("Has", a, fmt.Sprintf("model: present, impl: has=%v err=%v", has, herr))
			}
		case tree.Missing:
			if herr != nil || has {
				return bad("Has", a, fmt.Sprintf("model: missing, impl: has=%v err=%v", has, herr))
			}
		case tree.Err:
			if has {
				return bad("Has", a, "model: primitive in the way, impl: true")
			}
		}
		// typed getters
		s, serr := st.root.String(a.Name, a.Idx, a.opts()...)
		n, nerr := st.root.Int(a.Name, a.Idx, a.opts()...)
		_, cerr := st.root.Child(a.Name, a.Idx, a.opts()...)
		switch {
		case r != tree.OK:
			if serr == nil || nerr == nil || cerr == nil {
				return bad("getter-on-missing", a, fmt.Sprintf("model: no value, impl String=(%q,%v) Int err=%v Child err=%v", s, serr, nerr, cerr))
			}
		case mn.K == tree.Leaf:
			switch v := mn.V.(type) {
			case string:
				if serr != nil || s != v {
					return bad("String", a, fmt.Sprintf("model %q, impl (%q,%v)", v, s, serr))
				}
			case int64:
				if nerr != nil || n != v {
					return bad("Int", a, fmt.Sprintf("model %d, impl (%d,%v)", v, n, nerr))
				}
			}
			if cerr == nil {
				return bad("Child-of-primitive", a, "Child succeeded on a primitive")
			}
		case mn.K == tree.Cont:
			c, err := st.root.Child(a.Name, a.Idx, a.opts()...)
			if err != nil {
				return bad("Child", a, "model: container, impl: "+err.Error())
			}
			if !sameKind(c, mn) {
				return bad("IsDict/IsArray", a, fmt.Sprintf("model dict=%v array=%v, impl dict=%v array=%v (node %s)", mn.IsDict(), mn.IsArray(), c.IsDict(), c.IsArray(), mn))
			}
			if v := compareUnpack(c, mn); v != "" {
				return bad("Unpack-child", a, v)
			}
		}
	}
	// CountField for direct names
	for _, name := range []string{"", "a", "b"} {
		want, ok := st.mroot.Count(name)
		got, err := st.root.CountField(name)
		if ok != (err == nil) || (ok && got != want) {
			return &core.Violation{Sub: "observe", Sig: "OBSERVE CountField", Detail: fmt.Sprintf("CountField(%q): model (%d,%v) impl (%d,%v)", name, want, ok, got, err)}
		}
	}
	// CountField with the documented PathSep option: nested names
	for _, name := range []string{"a.a", "a.b", "b.x", "a.0", "b.l", "b.l.0"} {
		mn, r := tree.Get(st.mroot, tree.ParseAddr(name, -1, "."))
		got, err := st.root.CountField(name, ucfg.PathSep("."))
		switch {
		case r != tree.OK:
			if err == nil {
				return &core.Violation{Sub: "observe", Sig: "OBSERVE CountField(path)", Detail: fmt.Sprintf("CountField(%q, PathSep): model has no such setting, impl %d", name, got)}
			}
		default:
			want := 1
			switch {
			case mn.K == tree.Nil:
				want = 0
			case mn.K == tree.Cont && mn.IsArray():
				want = len(mn.A)
			}
			if mn.K == tree.Cont && len(mn.D) > 0 && len(mn.A) > 0 {
				continue // (a node with both parts: what counts is not defined)
			}
			if mn.K == tree.Cont && len(mn.D) == 0 && len(mn.A) == 0 {
				continue // (nil and the empty container are not told apart by the model)
			}
			if err != nil || got != want {
				return &core.Violation{Sub: "observe", Sig: "OBSERVE CountField(path)", Detail: fmt.Sprintf("CountField(%q, PathSep): model %d impl (%d,%v)", name, want, got, err)}
			}
		}
	}
	if !sameKind(st.root, st.mroot) {
		return &core.Violation{Sub: "observe", Sig: "OBSERVE IsDict/IsArray root", Detail: fmt.Sprintf("model dict=%v array=%v impl dict=%v array=%v", st.mroot.IsDict(), st.mroot.IsArray(), st.root.IsDict(), st.root.IsArray())}
	}
	if v := compareUnpack(st.root, st.mroot); v != "" {
		return &core.Violation{Sub: "observe", Sig: "OBSERVE Unpack root", Detail: v}
	}
	if st.h != nil {
		if v := compareUnpack(st.h, st.mh); v != "" {
			return &core.Violation{Sub: "observe", Sig: "OBSERVE Unpack handle (live view)", Detail: "handle " + st.mhPath + ": " + v}
		}
	}
	return nil
}

// sameKind compares IsDict/IsArray with the model. A dict whose last key was removed
// is not compared: whether an emptied dictionary still "is a dict" is representation
// detail the statement does not fix (a fresh empty config is neither).
func sameKind(c *ucfg.Config, m *tree.Node) bool {
	if c.IsArray() != m.IsArray() {
		return false
	}
	if m.D != nil && len(m.D) == 0 {
		return true
	}
	return c.IsDict() == m.IsDict()
}

func idxClass(i int) string {
	if i < 0 {
		return "<0"
	}
	return ">=0"
}

// compareUnpack compares the dict part (Unpack into a map) and the list part
// (Unpack into a slice) of c with the model node.
func compareUnpack(c *ucfg.Config, m *tree.Node) string {
	dictPart := &tree.Node{K: tree.Cont, D: m.D}
	var mp map[string]interface{}
	if err := c.Unpack(&mp); err != nil {
		return "Unpack(map) error: " + err.Error()
	}
	if got, want := tree.CanonGo(mp), dictPart.Canon(); got != want {
		return fmt.Sprintf("dict part: model %s impl %s", want, got)
	}
	if len(m.A) > 0 {
		var l []interface{}
		if err := c.Unpack(&l); err != nil {
			return "Unpack(slice) error: " + err.Error()
		}
		listPart := &tree.Node{K: tree.Cont, A: m.A, HasA: true}
		if got, want := tree.CanonGo(l), listPart.Canon(); got != want {
			return fmt.Sprintf("list part: model %s impl %s", want, got)
		}
	}
	return ""
}

// observeC15 checks Path / Parent / FlattenedKeys / CompareConfigs against the model structure.
func (u *pathUniverse) observeC15(st *pathState) (*core.Violation, bool) {
	if hasDottedKey(st.mroot) {
		// outside the quantifier: a literal key containing the separator makes the
		// flattened spelling ambiguous
		return nil, true
	}
	var viol *core.Violation
	var walk func(c *ucfg.Config, m *tree.Node, path string, parent *ucfg.Config)
	join := func(p, s string) string {
		if p == "" {
			return s
		}
		return p + "." + s
	}
	walk = func(c *ucfg.Config, m *tree.Node, path string, parent *ucfg.Config) {
		if viol != nil {
			return
		}
		if len(m.D) == 0 && len(m.A) == 0 && path != "" && c.Path(".") == "" && c.Parent() == nil && len(c.FlattenedKeys()) == 0 {
			// an empty container of the model may be a null setting of the implementation
			// (nil and empty objects are considered equal): Child returns an empty config for
			// it that is not part of the tree and says so
			return
		}
		if got := c.Path("."); got != path {
			viol = &core.Violation{Sub: "structure", Sig: "PATH " + nodeKind(m, path), Detail: fmt.Sprintf("node reached at %q reports Path()=%q", path, got)}
			return
		}
		if got := c.Parent(); got != parent {
			gp := "<nil>"
			if got != nil {
				gp = got.Path(".")
			}
			viol = &core.Violation{Sub: "structure", Sig: "PARENT " + nodeKind(m, path), Detail: fmt.Sprintf("node at %q: Parent() is not the config that contains it (reports a node with path %q)", path, gp)}
			return
		}
		want := m.LeafPaths(path)
		got := c.FlattenedKeys()
		if !reflect.DeepEqual(append([]string{}, got...), append([]string{}, want...)) && !(len(got) == 0 && len(want) == 0) {
			viol = &core.Violation{Sub: "structure", Sig: "FLATTENEDKEYS " + nodeKind(m, path), Detail: fmt.Sprintf("node at %q: model %v impl %v", path, want, got)}
			return
		}
		keys := make([]string, 0, len(m.D))
		for k := range m.D {
			keys = append(keys, k)
		}
		sort.Strings(keys)
		for _, k := range keys {
			if m.D[k].K != tree.Cont {
				continue
			}
			cc, err := c.Child(k, -1)
			if err != nil {
				viol = &core.Violation{Sub: "structure", Sig: "CHILD", Detail: fmt.Sprintf("Child(%q) at %q: %v", k, path, err)}
				return
			}
			walk(cc, m.D[k], join(path, k), c)
		}
		for i, e := range m.A {
			if e.K != tree.Cont {
				continue
			}
			cc, err := c.Child("", i)
			if err != nil {
				viol = &core.Violation{Sub: "structure", Sig: "CHILD", Detail: fmt.Sprintf("Child(\"\",%d) at %q: %v", i, path, err)}
				return
			}
			walk(cc, e, join(path, fmt.Sprint(i)), c)
		}
	}
	walk(st.root, st.mroot, "", nil)
	if viol != nil {
		return viol, false
	}
	// diff with itself: no change, everything kept
	d := diff.CompareConfigs(st.root, st.root)
	if d.HasChanged() || len(d[diff.Keep]) != len(st.mroot.LeafPaths("")) {
		return &core.Violation{Sub: "diff", Sig: "DIFF self", Detail: fmt.Sprintf("CompareConfigs(c,c) = %v, model keys %v", d, st.mroot.LeafPaths(""))}, false
	}
	return nil, false
}

func hasDottedKey(m *tree.Node) bool {
	if m == nil || m.K != tree.Cont {
		return false
	}
	for k, v := range m.D {
		if strings.Contains(k, ".") || hasDottedKey(v) {
			return true
		}
	}
	for _, e := range m.A {
		if hasDottedKey(e) {
			return true
		}
	}
	return false
}

func nodeKind(m *tree.Node, path string) string {
	k := "dict"
	if m.IsArray() {
		k = "list"
	}
	if path == "" {
		return "root " + k
	}
	segs := strings.Split(path, ".")
	last := segs[len(segs)-1]
	if last != "" && last[0] >= '0' && last[0] <= '9' {
		return "list-element " + k
	}
	return "dict-entry " + k
}

func (u *pathUniverse) exec(hist []int) core.Result {
	var res core.Result
	var viol *core.Violation
	skipped := false
	pi := core.Guard(func() {
		st := u.initial()
		for k, oi := range hist {
			v := st.apply(u.ops[oi])
			if v != nil && k == len(hist)-1 && u.prop == "C12" {
				viol = v
				return
			}
			if k < len(hist)-1 {
				// every observation is also made between the operations (their verdicts belong to
				// the shorter history; what matters here is that reads happened before the next
				// write - a read may leave something behind that the write invalidates)
				if u.prop == "C12" {
					u.observeC12(st)
				} else {
					u.observeC15(st)
				}
			}
		}
		if u.prop == "C12" {
			viol = u.observeC12(st)
		} else {
			viol, skipped = u.observeC15(st)
		}
		mh := ""
		if st.mh != nil {
			mh = st.mh.String()
		}
		res.Key = core.CaseKey("state", fp.Of(fp.Canon, st.root, st.h)+"|"+st.mroot.String()+"|"+mh)
		res.Nontrivial = len(hist) > 0 && st.mroot.Leaves() > 0
		res.Outcome = fmt.Sprintf("depth%d/leaves%d", st.mroot.Depth(), st.mroot.Leaves())
	})
	if pi != nil {
		return apiPanic("history", pi)
	}
	if viol != nil {
		return core.Result{Viol: viol, Nontrivial: true}
	}
	res.Skipped = skipped
	res.States = 1
	return res
}

func pathCheckUniverses(prop, tier string) []*core.Universe {
	rich := tier == "thorough"
	u := buildPathUniverse(prop, rich)
	depth := 3
	maxFrontier := 0
	if rich {
		depth = 4
		maxFrontier = 60000
	}
	up := *u
	up.populated = true
	// observation addresses inside the populated part
	up.addrs = append(append([]addr{}, u.addrs...), addr{"b.l", 0, true}, addr{"b.l", 1, true}, addr{"b.l.0.y", -1, true}, addr{"b.l.1.y", -1, true}, addr{"b.l", 2, true}, addr{"b.l.2", 0, true})
	return []*core.Universe{{
		Name:        "pathops",
		NumOps:      len(u.ops),
		OpText:      func(op int) string { return u.ops[op].String() },
		Exec:        u.exec,
		MaxDepth:    depth,
		MaxFrontier: maxFrontier,
	}, {
		Name:        "pathops-from-populated-config",
		NumOps:      len(up.ops),
		OpText:      func(op int) string { return up.ops[op].String() },
		Exec:        up.exec,
		MaxDepth:    depth,
		MaxFrontier: maxFrontier,
	}}
}

// comparePairs (C15): CompareConfigs between states reached by all pairs of short histories.
func c15PairsSpace(tier string) *core.Space {
	u := buildPathUniverse("C15", false)
	// a fixed set of short histories (single ops and selected pairs)
	var hs [][]int
	hs = append(hs, nil)
	for i := range u.ops {
		if u.ops[i].Kind == opSetString || u.ops[i].Kind == opSetChild || u.ops[i].Kind == opMerge || u.ops[i].Kind == opMergeList || u.ops[i].Kind == opHMerge {
			hs = append(hs, []int{i})
		}
	}
	base := len(hs)
	if tier == "thorough" {
		for i := 1; i < base; i++ {
			for j := 1; j < base; j += 3 {
				hs = append(hs, []int{hs[i][0], hs[j][0]})
			}
		}
	} else {
		for i := 1; i < base; i += 2 {
			for j := 1; j < base; j += 7 {
				hs = append(hs, []int{hs[i][0], hs[j][0]})
			}
		}
	}
	n := len(hs)
	build := func(h []int) *pathState {
		st := &pathState{root: ucfg.New(), mroot: tree.New()}
		for _, oi := range h {
			st.apply(u.ops[oi])
		}
		return st
	}
	text := func(h []int) string {
		var s []string
		for _, oi := range h {
			s = append(s, u.ops[oi].String())
		}
		return "[" + strings.Join(s, " ; ") + "]"
	}
	return &core.Space{
		Name: "diff-pairs",
		Size: n * n,
		Text: func(i int) string { return "old=" + text(hs[i/n]) + " new=" + text(hs[i%n]) },
		Exec: func(i int) core.Result {
			var res core.Result
			pi := core.Guard(func() {
				a, b := build(hs[i/n]), build(hs[i%n])
				if a.mroot.Mixed() || b.mroot.Mixed() || hasDottedKey(a.mroot) || hasDottedKey(b.mroot) {
					res.Skipped = true
					return
				}
				ka, kb := a.mroot.LeafPaths(""), b.mroot.LeafPaths("")
				inA, inB := map[string]bool{}, map[string]bool{}
				for _, k := range ka {
					inA[k] = true
				}
				for _, k := range kb {
					inB[k] = true
				}
				var keep, add, rem []string
				for _, k := range ka {
					if inB[k] {
						keep = append(keep, k)
					} else {
						rem = append(rem, k)
					}
				}
				for _, k := range kb {
					if !inA[k] {
						add = append(add, k)
					}
				}
				d := diff.CompareConfigs(a.root, b.root)
				norm := func(s []string) string { s = append([]string{}, s...); sort.Strings(s); return strings.Join(s, ",") }
				if norm(d[diff.Keep]) != norm(keep) || norm(d[diff.Add]) != norm(add) || norm(d[diff.Remove]) != norm(rem) {
					res = core.Fail("diff", "DIFF partition", fmt.Sprintf("model keep=%v add=%v remove=%v; impl keep=%v add=%v remove=%v", keep, add, rem, d[diff.Keep], d[diff.Add], d[diff.Remove]))
					return
				}
				if d.HasChanged() != (len(add)+len(rem) > 0) {
					res = core.Fail("diff", "DIFF HasChanged", fmt.Sprintf("HasChanged=%v but add=%v remove=%v", d.HasChanged(), add, rem))
					return
				}
				res.Nontrivial = len(keep)+len(add)+len(rem) > 1
				res.Outcome = fmt.Sprintf("k%d/a%d/r%d", len(keep), len(add), len(rem))
			})
			if pi != nil {
				return apiPanic("diff", pi)
			}
			return res
		},
	}
}

func registerPathCheck(prop string, rule string, assumptions []string) {
	var stats []core.BFSStats
	core.Register(&core.Check{
		ID:          prop,
		Level:       "model_checking",
		Rule:        rule,
		Assumptions: assumptions,
		Spaces: func(tier string) []*core.Space {
			if prop == "C15" {
				return []*core.Space{c15PairsSpace(tier)}
			}
			return nil
		},
		Dyn: func(tier, name string) *core.Space { return core.DynLevel(pathCheckUniverses(prop, tier), name) },
		Driver: func(tier string, run func(sp *core.Space) map[int]string) {
			stats = nil
			for _, u := range pathCheckUniverses(prop, tier) {
				stats = append(stats, core.DriveBFS(u, run))
			}
		},
		Post: func(tier string, cov map[string]interface{}) {
			cov["bfs"] = stats
			total := 0
			for _, s := range stats {
				total += s.States
				if s.Capped {
					cov["exhaustive"] = false
				}
			}
			cov["states"] = total
		},
	})
}

func init() {
	registerPathCheck("C12",
		"breadth-first search over all histories of path operations (SetString/SetInt/SetChild/Remove at ~40 overlapping (name,idx,PathSep) addresses, Merge of a dict and of a top-level list under 3 policies, Child handles and writes/removals/merges through them, writes the index limit rejects) from the empty config and from a populated config (a 4-element list, nested lists of objects); every transition replays the history on a fresh config and a model tree and compares the operation's result and every observation (Has, String, Int, Child, IsDict/IsArray, CountField, Unpack of root/children/handle) at every address; states deduplicated by canonical heap fingerprint + model state; non-trivial = the reached tree holds at least one leaf",
		[]string{
			"histories up to the stated depth over the fixed operation alphabet; labels written are fixed per operation",
			"a Child handle is treated as a live view until the next Merge on the root (Merge installs copies; staleness after Merge is not claimed either way)",
			"typed getters are compared on leaves of the matching class only; Child of a nil entry is not compared",
		})
	registerPathCheck("C15",
		"the same explicit-state search as C12 extended with re-attachment of children (Child; then Remove, an overwrite by a setter, or a Merge that replaces or drops the child; then SetChild elsewhere); in every state whose nodes are each a dict or a list: Path(\".\"), Parent() identity and FlattenedKeys() of every reachable node equal the model's structure, CompareConfigs(c,c) reports no change; plus CompareConfigs on all pairs of a fixed set of short histories; non-trivial = tree with at least one leaf / diff with more than one key",
		[]string{
			"states in which a node has (or had) both a dict and a list part are skipped (outside the property's quantifier) and counted as undefined",
			"configs without variable references",
		})
}
