package checks

import (
	"fmt"

	ucfg "github.com/elastic/go-ucfg"

	"verif/internal/core"
	"verif/internal/tree"
)

// C16, an option that names nothing: a second field option whose path exists in neither
// document (a name below a or b that the trees never use) cannot change the result - the merge
// with both options must equal the merge with the first option alone. The reference is the
// implementation itself under the first option alone (which the other spaces compare with the
// model). The second path shares its leading components with the first on purpose: the two
// options then share entries of the option tree.
func c16IrrelevantOption(ts []*tree.Node, paths []string) *core.Space {
	absent := []string{"a.zz", "a.zz.q", "b.zz", "zz", "a.a.zz", "zz.a"}
	n := len(ts)
	np, nf := len(allPolicies), len(fieldPolicies)
	radices := []int{n, n, np, len(paths), nf, len(absent), nf, 2}
	dec := func(i int) (tree.Policy, *tree.Node, *tree.Node, fieldOpt, fieldOpt, bool) {
		d := mixedRadix(i, radices...)
		return allPolicies[d[2]], tree.Label(ts[d[0]], "A"), tree.Label(ts[d[1]], "B"), fieldOpt{paths[d[3]], fieldPolicies[d[4]]}, fieldOpt{absent[d[5]], fieldPolicies[d[6]]}, d[7] == 1
	}
	return &core.Space{
		Name: "second-option-names-nothing",
		Size: product(radices...),
		Text: func(i int) string {
			g, a, b, f1, f2, first := dec(i)
			order := "after"
			if first {
				order = "before"
			}
			return fmt.Sprintf("global=%s %s(%q) with %s(%q) given %s it (no such setting in A or B) vs. the first option alone; A=%s B=%s", g, fieldOptName(f1.Policy), f1.Path, fieldOptName(f2.Policy), f2.Path, order, a, b)
		},
		Exec: func(i int) core.Result {
			g, a, b, f1, f2, first := dec(i)
			if (a.HasA && len(a.D) == 0) || (b.HasA && len(b.D) == 0) {
				return core.Result{Skipped: true}
			}
			var alone, both string
			var err error
			pi := core.Guard(func() {
				base := append([]ucfg.Option{ucfg.PathSep(".")}, policyOpt[g]...)
				run := func(fo ...fieldOpt) (string, error) {
					ca, err := ucfg.NewFrom(a.ToGo())
					if err != nil {
						return "", err
					}
					opts := append([]ucfg.Option{}, base...)
					for _, f := range fo {
						opts = append(opts, f.option())
					}
					if err := ca.Merge(b.ToGo(), opts...); err != nil {
						return "", err
					}
					return canonOfConfig(ca)
				}
				if alone, err = run(f1); err != nil {
					return
				}
				if first {
					both, err = run(f2, f1)
				} else {
					both, err = run(f1, f2)
				}
			})
			if pi != nil {
				return apiPanic("irrelevant-option", pi)
			}
			sig := fmt.Sprintf("global=%s %s + %s", g, optSig([]fieldOpt{f1}), optSig([]fieldOpt{f2}))
			if err != nil {
				return core.Fail("irrelevant-option", "ERROR "+sig, err.Error())
			}
			if alone != both {
				return core.Fail("irrelevant-option", "OPTION-FOR-AN-ABSENT-SETTING-CHANGES-RESULT "+sig, fmt.Sprintf("first option alone: %s, with the second: %s", alone, both))
			}
			plain := tree.Merge(g, a, b).Canon()
			return core.Result{Nontrivial: alone != plain, Outcome: "same"}
		},
	}
}
