package checks

import (
	"fmt"
	"strings"

	ucfg "github.com/elastic/go-ucfg"

	"verif/internal/core"
	"verif/internal/tree"
)

// C16, an option that names nothing: a second field option whose path exists in neither
// document (a name below a or b that the trees never use) cannot change the result - the merge
// with both options must equal the merge with the first option alone. The reference is the
// implementation itself under the first option alone (which the other spaces compare with the
// model). The second path shares its leading components with the first on purpose: the two
// options then share entries of the option tree.
func c16IrrelevantOption(ts []*tree.Node, paths []string) *core.Space {
	absent := []string{"a.zz", "a.zz.q", "b.zz", "zz", "a.a.zz", "zz.a"}
	n := len(ts)
	np, nf := len(allPolicies), len(fieldPolicies)
	radices := []int{n, n, np, len(paths), nf, len(absent), nf, 2}
	dec := func(i int) (tree.Policy, *tree.Node, *tree.Node, fieldOpt, fieldOpt, bool) {
		d := mixedRadix(i, radices...)
		return allPolicies[d[2]], tree.Label(ts[d[0]], "A"), tree.Label(ts[d[1]], "B"), fieldOpt{paths[d[3]], fieldPolicies[d[4]]}, fieldOpt{absent[d[5]], fieldPolicies[d[6]]}, d[7] == 1
	}
	return &core.Space{
		Name: "second-option-names-nothing",
		Size: product(radices...),
		Text: func(i int) string {
			g, a, b, f1, f2, first := dec(i)
			order := "after"
			if first {
				order = "before"
			}
			return fmt.Sprintf("global=%s %s(%q) with %s(%q) given %s it (no such setting in A or B) vs. the first option alone; A=%s B=%s", g, fieldOptName(f1.Policy), f1.Path, fieldOptName(f2.Policy), f2.Path, order, a, b)
		},
		Exec: func(i int) core.Result {
			g, a, b, f1, f2, first := dec(i)
			if (a.HasA && len(a.D) == 0) || (b.HasA && len(b.D) == 0) {
				return core.Result{Skipped: true}
			}
			var alone, both string
			var err error
			pi := core.Guard(func() {
				base := append([]ucfg.Option{ucfg.PathSep(".")}, policyOpt[g]...)
				run := func(fo ...fieldOpt) (string, error) {
					ca, err := ucfg.NewFrom(a.ToGo())
					if err != nil {
						return "", err
					}
					opts := append([]ucfg.Option{}, base...)
					for _, f := range fo {
						opts = append(opts, f.option())
					}
					if err := ca.Merge(b.ToGo(), opts...); err != nil {
						return "", err
					}
					return canonOfConfig(ca)
				}
				if alone, err = run(f1); err != nil {
					return
				}
				if first {
					both, err = run(f2, f1)
				} else {
					both, err = run(f1, f2)
				}
			})
			if pi != nil {
				return apiPanic("irrelevant-option", pi)
			}
			sig := fmt.Sprintf("global=%s %s + %s", g, optSig([]fieldOpt{f1}), optSig([]fieldOpt{f2}))
			if err != nil {
				return core.Fail("irrelevant-option", "ERROR "+sig, err.Error())
			}
			if alone != both {
				return core.Fail("irrelevant-option", "OPTION-FOR-AN-ABSENT-SETTING-CHANGES-RESULT "+sig, fmt.Sprintf("first option alone: %s, with the second: %s", alone, both))
			}
			plain := tree.Merge(g, a, b).Canon()
			return core.Result{Nontrivial: alone != plain, Outcome: "same"}
		},
	}
}

// C16, names that look like numbers: a segment above the configured maximum index (or any numeric
// single-segment key under EnableNumKeys) is an ordinary name (C20), so a field option naming it must behave
// exactly as it does for a plain name. Metamorphic: the merge with the numeric spelling, its key renamed, must
// equal the merge with the plain name "kk" (which the other spaces compare with the model).
func c16NumericNames() *core.Space {
	spellings := []struct {
		Key  string
		Opts []ucfg.Option
		Text string
	}{
		{"500", []ucfg.Option{ucfg.MaxIdx(10)}, `"500" under MaxIdx(10)`},
		{"11", []ucfg.Option{ucfg.MaxIdx(10)}, `"11" under MaxIdx(10)`},
		{"2000", nil, `"2000" under the default MaxIdx`},
		{"-1", nil, `"-1"`},
	}
	paths := []string{"a.K", "K", "a", "a.K.x", "**.K"}
	layouts := []func(k string) (M, M){
		func(k string) (M, M) {
			return M{"a": M{k: L{"A1", "A2"}, "z": L{"A1", "A2"}}, k: L{"A1", "A2"}}, M{"a": M{k: L{"B1"}, "z": L{"B1"}}, k: L{"B1"}}
		},
		func(k string) (M, M) {
			return M{"a": M{k: M{"x": L{"A1", "A2"}, "y": "A"}}}, M{"a": M{k: M{"x": L{"B1"}}}}
		},
	}
	np, nf := len(allPolicies), len(fieldPolicies)
	radices := []int{len(spellings), len(paths), len(layouts), np, nf}
	return &core.Space{
		Name: "numeric-looking-names-in-field-options",
		Size: product(radices...),
		Text: func(i int) string {
			d := mixedRadix(i, radices...)
			return fmt.Sprintf("global=%s %s(%q) with K = %s vs. K = \"kk\"; layout %d", allPolicies[d[3]], fieldOptName(fieldPolicies[d[4]]), paths[d[1]], spellings[d[0]].Text, d[2])
		},
		Exec: func(i int) core.Result {
			d := mixedRadix(i, radices...)
			sp, path, lay, g, fp := spellings[d[0]], paths[d[1]], layouts[d[2]], allPolicies[d[3]], fieldPolicies[d[4]]
			var got, want string
			var err error
			pi := core.Guard(func() {
				run := func(k string, extra []ucfg.Option) (string, error) {
					// the option set is the same at every step: the limit is given before the field option
					opts := append([]ucfg.Option{ucfg.PathSep(".")}, extra...)
					opts = append(opts, policyOpt[g]...)
					opts = append(opts, fieldOpt{strings.ReplaceAll(path, "K", k), fp}.option())
					a, b := lay(k)
					ca, err := ucfg.NewFrom(a, opts...)
					if err != nil {
						return "", err
					}
					if err := ca.Merge(b, opts...); err != nil {
						return "", err
					}
					m, err := unpackGeneric(ca, opts...)
					if err != nil {
						return "", err
					}
					var rename func(v interface{}) interface{}
					rename = func(v interface{}) interface{} {
						switch x := v.(type) {
						case map[string]interface{}:
							out := map[string]interface{}{}
							for key, e := range x {
								if key == k {
									key = "kk"
								}
								out[key] = rename(e)
							}
							return out
						case []interface{}:
							out := make([]interface{}, len(x))
							for n, e := range x {
								out[n] = rename(e)
							}
							return out
						}
						return v
					}
					return tree.CanonGo(rename(map[string]interface{}(m))), nil
				}
				if got, err = run(sp.Key, sp.Opts); err != nil {
					return
				}
				want, err = run("kk", sp.Opts)
			})
			if pi != nil {
				return apiPanic("numeric-names", pi)
			}
			if err != nil {
				return core.Fail("numeric-names", "ERROR numeric-looking name in a field option", err.Error())
			}
			if got != want {
				return core.Fail("numeric-names", "NUMERIC-LOOKING-NAME-TREATED-DIFFERENTLY "+fieldOptName(fp), fmt.Sprintf("with the name spelled %s: %s, with a plain name: %s", sp.Text, got, want))
			}
			return core.Result{Nontrivial: true, Outcome: "same"}
		},
	}
}
