package checks

import (
	"bytes"
	"encoding/json"
	"fmt"
	"math"
	"reflect"
	"sort"
	"strconv"
	"strings"

	"github.com/elastic/go-ucfg/parse"

	"verif/internal/core"
	"verif/internal/flagsyn"
)

// C17: parse.Value accepts every JSON value and reads it back faithfully; the parser
// options do what they say.

var c17StrAlphabet = []string{"a", " ", `"`, `\`, "/", "'", ",", ":", "[", "]", "{", "}", "$", "\n", "\t", "\x01", "é", "\U0001F600"}

func c17Strings(maxLen int) []string {
	out := []string{""}
	cur := []string{""}
	for l := 1; l <= maxLen; l++ {
		var nx []string
		for _, s := range cur {
			for _, c := range c17StrAlphabet {
				nx = append(nx, s+c)
			}
		}
		out = append(out, nx...)
		cur = nx
	}
	return out
}

type jnum string // a JSON number literal

var c17Numbers = []jnum{"0", "-0", "1", "-1", "1.5", "-2.5e3", "1E-2", "9223372036854775807", "9223372036854775808", "18446744073709551615", "18446744073709551616", "-9223372036854775808", "-9223372036854775809", "0.1", "1e2", "123456789012345678901234567890"}

// rendering styles
type c17Style int

const (
	styCompact c17Style = iota
	styIndent
	styBlanks
	styEscapeAll // every non-ASCII and '/' escaped (\uXXXX, surrogate pairs, \/)
	styIndentCRLF
	numC17Styles
)

func (s c17Style) String() string {
	return [...]string{"compact", "indented", "blanks around separators", "all escapes forced", "indented with CRLF line ends and tabs"}[s]
}

func jsonString(s string, escapeAll bool) string {
	if !escapeAll {
		var buf bytes.Buffer
		enc := json.NewEncoder(&buf)
		enc.SetEscapeHTML(false)
		enc.Encode(s)
		return strings.TrimRight(buf.String(), "\n")
	}
	var sb strings.Builder
	sb.WriteByte('"')
	for _, r := range s {
		switch {
		case r == '"' || r == '\\':
			sb.WriteByte('\\')
			sb.WriteRune(r)
		case r == '/':
			sb.WriteString(`\/`)
		case r < 0x20 || r > 0x7e:
			if r >= 0x10000 {
				r -= 0x10000
				fmt.Fprintf(&sb, `\u%04x\u%04x`, 0xD800+(r>>10), 0xDC00+(r&0x3FF))
			} else {
				fmt.Fprintf(&sb, `\u%04x`, r)
			}
		default:
			sb.WriteRune(r)
		}
	}
	sb.WriteByte('"')
	return sb.String()
}

// render a JSON value (string, jnum, bool, nil, []interface{}, ordered object)
type jobj []jmember
type jmember struct {
	K string
	V interface{}
}

func render(v interface{}, st c17Style, depth int) string {
	sep := func(s string) string {
		switch st {
		case styBlanks:
			return " " + s + " "
		}
		return s
	}
	nl := func(d int) string {
		if st == styIndent {
			return "\n" + strings.Repeat("  ", d)
		}
		if st == styIndentCRLF {
			return "\r\n" + strings.Repeat("\t", d)
		}
		if st == styBlanks {
			return " "
		}
		return ""
	}
	switch x := v.(type) {
	case nil:
		return "null"
	case bool:
		return strconv.FormatBool(x)
	case jnum:
		return string(x)
	case string:
		return jsonString(x, st == styEscapeAll)
	case []interface{}:
		if len(x) == 0 {
			return "[]"
		}
		var parts []string
		for _, e := range x {
			parts = append(parts, nl(depth+1)+render(e, st, depth+1))
		}
		return "[" + strings.Join(parts, sep(",")) + nl(depth) + "]"
	case jobj:
		if len(x) == 0 {
			return "{}"
		}
		var parts []string
		for _, m := range x {
			colon := ":"
			if st == styIndent || st == styIndentCRLF {
				colon = ": "
			}
			parts = append(parts, nl(depth+1)+jsonString(m.K, st == styEscapeAll)+sep(colon)+render(m.V, st, depth+1))
		}
		return "{" + strings.Join(parts, sep(",")) + nl(depth) + "}"
	}
	panic("render")
}

// canonical comparison form: numbers by value and class, empty containers == nil
func c17Canon(v interface{}) string {
	switch x := v.(type) {
	case nil:
		return "~"
	case bool:
		return strconv.FormatBool(x)
	case string:
		return strconv.Quote(x)
	case uint64:
		return "u" + strconv.FormatUint(x, 10)
	case int64:
		if x >= 0 {
			return "u" + strconv.FormatInt(x, 10)
		}
		return "i" + strconv.FormatInt(x, 10)
	case float64:
		if x == math.Trunc(x) && math.Abs(x) < 1e18 && x != 0 {
			// an integral float and the same integer are numerically equal
			if x > 0 {
				return "u" + strconv.FormatFloat(x, 'f', 0, 64)
			}
			return "i" + strconv.FormatFloat(x, 'f', 0, 64)
		}
		if x == 0 {
			return "u0"
		}
		return "f" + strconv.FormatFloat(x, 'g', -1, 64)
	case json.Number:
		s := string(x)
		if u, err := strconv.ParseUint(s, 10, 64); err == nil {
			return c17Canon(u)
		}
		if i, err := strconv.ParseInt(s, 10, 64); err == nil {
			return c17Canon(i)
		}
		f, err := strconv.ParseFloat(s, 64)
		if err != nil {
			return "bad-number(" + s + ")"
		}
		return c17Canon(f)
	case []interface{}:
		if len(x) == 0 {
			return "~"
		}
		var parts []string
		for _, e := range x {
			parts = append(parts, c17Canon(e))
		}
		return "[" + strings.Join(parts, ",") + "]"
	case map[string]interface{}:
		if len(x) == 0 {
			return "~"
		}
		keys := make([]string, 0, len(x))
		for k := range x {
			keys = append(keys, k)
		}
		sort.Strings(keys)
		var parts []string
		for _, k := range keys {
			parts = append(parts, strconv.Quote(k)+":"+c17Canon(x[k]))
		}
		return "{" + strings.Join(parts, ",") + "}"
	}
	return fmt.Sprintf("?%T(%v)", v, v)
}

func c17Docs(tier string) []interface{} {
	maxLen := 2
	if tier == "thorough" {
		maxLen = 3
	}
	var docs []interface{}
	for _, s := range c17Strings(maxLen) {
		docs = append(docs, s)
	}
	for _, n := range c17Numbers {
		docs = append(docs, n)
	}
	docs = append(docs, true, false, nil)
	// containers over a reduced leaf set
	red := []interface{}{"", "a", " a", "b\t", `"`, `\`, `a\`, "a b", "é\U0001F600", "x,y", "/", "]", "}", ":", jnum("0"), jnum("-1"), jnum("1.5"), jnum("18446744073709551615"), true, nil}
	var lvl1 []interface{}
	lvl1 = append(lvl1, []interface{}{}, jobj{})
	for _, a := range red {
		lvl1 = append(lvl1, []interface{}{a}, jobj{{"k", a}})
		if s, ok := a.(string); ok {
			lvl1 = append(lvl1, jobj{{s, "v"}})
		}
		for _, b := range red {
			lvl1 = append(lvl1, []interface{}{a, b}, jobj{{"k", a}, {"j", b}})
		}
	}
	docs = append(docs, lvl1...)
	step := 7
	if tier == "thorough" {
		step = 1
	}
	for i := 0; i < len(lvl1); i += step {
		c := lvl1[i]
		docs = append(docs, []interface{}{c}, jobj{{"o", c}}, []interface{}{"s", c}, []interface{}{c, jnum("1")}, jobj{{"a", "s"}, {"o", c}}, jobj{{"o", c}, {"z", nil}})
	}
	return docs
}

func c17JSON(tier string) *core.Space {
	docs := c17Docs(tier)
	n := len(docs)
	return &core.Space{
		Name: "json-documents",
		Size: n * int(numC17Styles),
		Text: func(i int) string {
			return fmt.Sprintf("parse.Value(%q) [%v]", render(docs[i/int(numC17Styles)], c17Style(i%int(numC17Styles)), 0), c17Style(i%int(numC17Styles)))
		},
		Exec: func(i int) core.Result {
			doc, st := docs[i/int(numC17Styles)], c17Style(i%int(numC17Styles))
			text := render(doc, st, 0)
			var res core.Result
			pi := core.Guard(func() {
				dec := json.NewDecoder(strings.NewReader(text))
				dec.UseNumber()
				var want interface{}
				if err := dec.Decode(&want); err != nil {
					panic("harness: rendered document is not JSON: " + err.Error() + ": " + text)
				}
				got, err := parse.Value(text)
				class := docClass(doc) + " " + st.String()
				if err != nil {
					res = core.Fail("json", "JSON-REJECTED "+class, fmt.Sprintf("%q: %v", text, err))
					return
				}
				if g, w := c17Canon(got), c17Canon(want); g != w {
					res = core.Fail("json", "JSON-DIFFERS "+class, fmt.Sprintf("%q: encoding/json gives %s, parse.Value gives %s", text, w, g))
					return
				}
				res.Nontrivial = true
				res.Outcome = class
			})
			if pi != nil {
				return apiPanic("json", pi)
			}
			return res
		},
	}
}

func docClass(d interface{}) string {
	switch x := d.(type) {
	case string:
		switch {
		case strings.HasSuffix(x, `\`):
			return "string-ending-in-backslash"
		case strings.ContainsAny(x, `"\`):
			return "string-with-quote-or-backslash"
		}
		for _, r := range x {
			if r > 0x7e {
				return "string-non-ascii"
			}
			if r < 0x20 {
				return "string-control"
			}
		}
		return "string"
	case jnum:
		return "number"
	case []interface{}:
		return "array"
	case jobj:
		return "object"
	}
	return "literal"
}

// ---- options ----

func c17Configs() []parse.Config {
	var out []parse.Config
	for m := 0; m < 32; m++ {
		c := parse.Config{Array: m&1 != 0, Object: m&2 != 0, StringDQuote: m&4 != 0, StringSQuote: m&8 != 0, IgnoreCommas: m&16 != 0}
		out = append(out, c)
	}
	return out
}

var c17Sigma = []string{"[", "]", "{", "}", ",", ":", `"`, "'", `\`, "a", "1", "-", ".", " "}

func c17Grammar(maxLen int) *core.Space {
	cfgs := c17Configs()
	nSym := len(c17Sigma)
	total := 0
	pow := 1
	offs := []int{}
	for l := 0; l <= maxLen; l++ {
		offs = append(offs, total)
		total += pow
		pow *= nSym
	}
	str := func(i int) string {
		l := 0
		for l+1 < len(offs) && i >= offs[l+1] {
			l++
		}
		i -= offs[l]
		var sb strings.Builder
		digits := make([]int, l)
		for k := l - 1; k >= 0; k-- {
			digits[k] = i % nSym
			i /= nSym
		}
		for _, d := range digits {
			sb.WriteString(c17Sigma[d])
		}
		return sb.String()
	}
	return &core.Space{
		Name: fmt.Sprintf("grammar-strings<=%d-x-32-configs", maxLen),
		Size: total * len(cfgs),
		Text: func(i int) string {
			c := cfgs[i%len(cfgs)]
			return fmt.Sprintf("ValueWithConfig(%q, %+v)", str(i/len(cfgs)), c)
		},
		Exec: func(i int) core.Result {
			c := cfgs[i%len(cfgs)]
			s := str(i / len(cfgs))
			var res core.Result
			pi := core.Guard(func() {
				got, err := parse.ValueWithConfig(s, c)
				if !c.Array && c.Object {
					if err == nil {
						res = core.Fail("options", "INVALID-CONFIG-ACCEPTED", "Object without Array must be rejected")
					}
					res.Outcome = "invalid-config"
					return
				}
				// with quoted strings / brackets enabled, a comma after them still separates values;
				// the IgnoreCommas claim is about unquoted text (see DESIGN.md C17)
				want, ok := flagsyn.Parse(s, flagsyn.Config{Array: c.Array, Object: c.Object, DQuote: c.StringDQuote, SQuote: c.StringSQuote, IgnoreCommas: c.IgnoreCommas})
				cls := cfgClass(c)
				switch {
				case ok && err != nil:
					res = core.Fail("options", "REJECTED "+cls, fmt.Sprintf("reference value %s, parse error: %v", c17Canon(want), err))
				case !ok && err == nil:
					res = core.Fail("options", "ACCEPTED-INVALID "+cls, fmt.Sprintf("reference: not in the language, parse gives %s", c17Canon(got)))
				case ok && !reflect.DeepEqual(normEmpty(got), normEmpty(want)):
					res = core.Fail("options", "VALUE-DIFFERS "+cls, fmt.Sprintf("reference %s (%#v), parse %s (%#v)", c17Canon(want), want, c17Canon(got), got))
				default:
					res.Nontrivial = len(s) > 0
					if ok {
						res.Outcome = "value/" + cls
					} else {
						res.Outcome = "error/" + cls
					}
				}
			})
			if pi != nil {
				return apiPanic("options", pi)
			}
			return res
		},
	}
}

func normEmpty(v interface{}) interface{} {
	switch x := v.(type) {
	case []interface{}:
		if len(x) == 0 {
			return nil
		}
		out := make([]interface{}, len(x))
		for i, e := range x {
			out[i] = normEmpty(e)
		}
		return out
	case map[string]interface{}:
		if len(x) == 0 {
			return nil
		}
		out := map[string]interface{}{}
		for k, e := range x {
			out[k] = normEmpty(e)
		}
		return out
	}
	return v
}

func cfgClass(c parse.Config) string {
	var s []string
	if !c.Array {
		s = append(s, "noarray")
	}
	if !c.Object {
		s = append(s, "noobject")
	}
	if !c.StringDQuote {
		s = append(s, "nodquote")
	}
	if !c.StringSQuote {
		s = append(s, "nosquote")
	}
	if c.IgnoreCommas {
		s = append(s, "ignorecommas")
	}
	if len(s) == 0 {
		return "default"
	}
	return strings.Join(s, "+")
}

// documented meaning of the switches on JSON-ish inputs
func c17Switches() *core.Space {
	type tc struct {
		In   string
		Cfg  parse.Config
		Want interface{}
	}
	all := parse.Config{Array: true, Object: true, StringDQuote: true, StringSQuote: true}
	with := func(f func(c *parse.Config)) parse.Config { c := all; f(&c); return c }
	cases := []tc{
		{`[1,2]`, all, []interface{}{uint64(1), uint64(2)}},
		{`[1,2]`, with(func(c *parse.Config) { c.Array = false; c.Object = false }), []interface{}{"[1", "2]"}},
		{`[1,2]`, with(func(c *parse.Config) { c.Array = false; c.Object = false; c.IgnoreCommas = true }), "[1,2]"},
		{`{"a":1}`, all, map[string]interface{}{"a": uint64(1)}},
		{`{"a":1}`, with(func(c *parse.Config) { c.Object = false }), `{"a":1}`},
		{`{a:1,b:2}`, with(func(c *parse.Config) { c.Object = false }), []interface{}{"{a:1", "b:2}"}},
		{`"x y"`, all, "x y"},
		{`"x y"`, with(func(c *parse.Config) { c.StringDQuote = false }), `"x y"`},
		{`'x y'`, all, "x y"},
		{`'x y'`, with(func(c *parse.Config) { c.StringSQuote = false }), `'x y'`},
		{`a,b`, all, []interface{}{"a", "b"}},
		{`a,b`, with(func(c *parse.Config) { c.IgnoreCommas = true }), "a,b"},
		{`1,2,3`, with(func(c *parse.Config) { c.IgnoreCommas = true }), "1,2,3"},
		{`[a,b],c`, with(func(c *parse.Config) { c.IgnoreCommas = true }), []interface{}{[]interface{}{"a", "b"}, "c"}},
		{`[1,2,3]`, with(func(c *parse.Config) { c.IgnoreCommas = true }), []interface{}{uint64(1), uint64(2), uint64(3)}},
		{`{"a":1,"b":[true,null],"c":-7}`, with(func(c *parse.Config) { c.IgnoreCommas = true }), map[string]interface{}{"a": uint64(1), "b": []interface{}{true, nil}, "c": int64(-7)}},
		{`${x}`, parse.NoopConfig, "${x}"},
		{`a,'b',"c",[d],{e:f}`, parse.NoopConfig, `a,'b',"c",[d],{e:f}`},
		{`[a,b]`, parse.EnvConfig, []interface{}{"a", "b"}},
		{`{a:b}`, parse.EnvConfig, "{a:b}"},
	}
	return &core.Space{
		Name: "documented-switches",
		Size: len(cases),
		Text: func(i int) string { return fmt.Sprintf("ValueWithConfig(%q, %+v)", cases[i].In, cases[i].Cfg) },
		Exec: func(i int) core.Result {
			c := cases[i]
			var res core.Result
			pi := core.Guard(func() {
				got, err := parse.ValueWithConfig(c.In, c.Cfg)
				if err != nil {
					res = core.Fail("switches", "SWITCH error "+cfgClass(c.Cfg), err.Error())
					return
				}
				if !reflect.DeepEqual(got, c.Want) {
					res = core.Fail("switches", "SWITCH value "+cfgClass(c.Cfg), fmt.Sprintf("%q: want %#v got %#v", c.In, c.Want, got))
					return
				}
				res.Nontrivial = true
			})
			if pi != nil {
				return apiPanic("switches", pi)
			}
			return res
		},
	}
}

func init() {
	core.Register(&core.Check{
		ID:    "C17",
		Level: "exploration",
		Rule:  "(a) JSON documents: every string of length <=2 (thorough <=3) over 18 characters (quotes, backslash, slash, separators, brackets, $, newline, tab, a control character, a 2-byte and a 4-byte rune), 16 number literals around the 64-bit boundaries, literals, and arrays/objects (<=2 members, depth<=2) over a reduced leaf set, each rendered compact, indented, with blanks around every separator and with all escapes forced (\\uXXXX incl. surrogate pairs, \\/), must parse to the data encoding/json decodes (numbers by value); (b) every string of length <=4 (thorough <=5) over the 14 grammar characters under all 32 parse.Config combinations must agree with the reference parser flagsyn (the 8 invalid combinations must be rejected); (c) 20 literal cases of the documented switches; non-trivial = every compared document / non-empty string",
		Assumptions: []string{
			"empty array/object == nil as the existing tests fix it; integral floats equal the same integers",
			"the reference parser encodes: disabled bracket/quote characters are ordinary characters, IgnoreCommas removes the top-level comma list of unquoted text (after a quoted string or bracketed value a comma still separates)",
		},
		Spaces: func(tier string) []*core.Space {
			if tier == "thorough" {
				return []*core.Space{c17Switches(), c17JSON(tier), c17Grammar(5)}
			}
			return []*core.Space{c17Switches(), c17JSON(tier), c17Grammar(4)}
		},
	})
}
