package checks

import (
	"fmt"
	"math"
	"math/big"
	"reflect"
	"strconv"
	"strings"
	"time"

	ucfg "github.com/elastic/go-ucfg"

	"verif/internal/core"
)

// C03: typed unpacking preserves the value or fails - it never wraps around.
// Oracle on math/big: if err == nil the stored value equals rule(v) exactly; if
// rule(v) is undefined (negative into unsigned, out of range, NaN/Inf into an
// integer or duration, unparsable string) an error is required.

type c03Source struct {
	Kind string // int, uint, float, string, bool
	I    int64
	U    uint64
	F    float64
	S    string
	B    bool
}

func (s c03Source) String() string {
	switch s.Kind {
	case "int":
		return fmt.Sprintf("int64(%d)", s.I)
	case "uint":
		return fmt.Sprintf("uint64(%d)", s.U)
	case "float":
		return fmt.Sprintf("float64(%v)", strconv.FormatFloat(s.F, 'g', -1, 64))
	case "string":
		return fmt.Sprintf("string(%q)", s.S)
	}
	return fmt.Sprintf("bool(%v)", s.B)
}

func c03Sources() []c03Source {
	var out []c03Source
	seenI, seenU, seenF, seenS := map[int64]bool{}, map[uint64]bool{}, map[uint64]bool{}, map[string]bool{}
	addI := func(v int64) {
		if !seenI[v] {
			seenI[v] = true
			out = append(out, c03Source{Kind: "int", I: v})
		}
	}
	addU := func(v uint64) {
		if !seenU[v] {
			seenU[v] = true
			out = append(out, c03Source{Kind: "uint", U: v})
		}
	}
	addF := func(v float64) {
		b := math.Float64bits(v)
		if !seenF[b] {
			seenF[b] = true
			out = append(out, c03Source{Kind: "float", F: v})
		}
	}
	addS := func(v string) {
		if !seenS[v] {
			seenS[v] = true
			out = append(out, c03Source{Kind: "string", S: v})
		}
	}
	var bigs []*big.Int
	for _, k := range []uint{7, 8, 15, 16, 31, 32, 53, 63, 64} {
		p := new(big.Int).Lsh(big.NewInt(1), k)
		for _, d := range []int64{-1, 0, 1} {
			x := new(big.Int).Add(p, big.NewInt(d))
			bigs = append(bigs, x, new(big.Int).Neg(x))
		}
	}
	for _, v := range []int64{0, 1, -1, 9223372036, 9223372037, -9223372036, -9223372037, 292, 1000000000} {
		bigs = append(bigs, big.NewInt(v))
	}
	for _, x := range bigs {
		if x.IsInt64() {
			addI(x.Int64())
		}
		if x.IsUint64() {
			addU(x.Uint64())
		}
		f, _ := new(big.Float).SetInt(x).Float64()
		addF(f)
		addF(math.Nextafter(f, math.Inf(1)))
		addF(math.Nextafter(f, math.Inf(-1)))
		s := x.String()
		addS(s)
		if x.Sign() >= 0 {
			addS("+" + s)
			addS("0x" + x.Text(16))
			addS("0b" + x.Text(2))
			addS("0o" + x.Text(8))
			addS("0" + x.Text(8))
		} else {
			addS("-0x" + new(big.Int).Neg(x).Text(16))
		}
		addS(s + ".0")
		addS(s + "e0")
		addS(s + "s")
	}
	for _, f := range []float64{0.5, -0.5, 1.5, -1.5, 0.999, -0.999, 255.5, 127.9, -128.9, math.MaxFloat32, math.Nextafter(math.MaxFloat32, math.Inf(1)), float64(math.MaxFloat32) * 2,
		1.23456789, 0.30000000000000004, 16777217, 1e300, 123456789.125, 1e21, 1e-7,
		math.MaxFloat64, math.SmallestNonzeroFloat64, math.SmallestNonzeroFloat32, math.NaN(), math.Inf(1), math.Inf(-1), math.Copysign(0, -1), 1e10, 9.223372036854775e9, 9.3e9, -9.3e9, 1e-9, 2.5e-10} {
		addF(f)
	}
	for _, s := range []string{"", "abc", "1x", "true", "on", "T", "f", "OFF", "yes", "1h", "1.5s", "-1ns", "9223372036854775808ns", "2562047h48m", "1_000", "0x_ff", "1e3", "1E400", "0x1p-2", " 1", "1 ", "٣", "NaN", "Inf", "-Inf", "+inf", "1e30", "-1e30", "9.3e18", "18446744073709551616", "0.1", "1.9", "-0.9", "00", "-0", "TRUE", "False", "t", "1s500ms", "1m"} {
		addS(s)
	}
	out = append(out, c03Source{Kind: "bool", B: true}, c03Source{Kind: "bool", B: false})
	return out
}

type MyI8 int8
type MyU16 uint16
type MyF32 float32
type MyStr string
type MyBool bool
type MyI64 int64

var c03Targets = []reflect.Type{
	reflect.TypeOf(false), reflect.TypeOf(int(0)), reflect.TypeOf(int8(0)), reflect.TypeOf(int16(0)), reflect.TypeOf(int32(0)), reflect.TypeOf(int64(0)),
	reflect.TypeOf(uint(0)), reflect.TypeOf(uint8(0)), reflect.TypeOf(uint16(0)), reflect.TypeOf(uint32(0)), reflect.TypeOf(uint64(0)), reflect.TypeOf(uintptr(0)),
	reflect.TypeOf(float32(0)), reflect.TypeOf(float64(0)), reflect.TypeOf(""), reflect.TypeOf(time.Duration(0)),
	reflect.TypeOf(MyI8(0)), reflect.TypeOf(MyU16(0)), reflect.TypeOf(MyF32(0)), reflect.TypeOf(MyStr("")), reflect.TypeOf(MyBool(false)), reflect.TypeOf(MyI64(0)),
}

// exact value of a source as big.Float (nil when not a number), plus its special class.
func (s c03Source) exact() (v *big.Float, special string) {
	switch s.Kind {
	case "int":
		return new(big.Float).SetPrec(200).SetInt64(s.I), ""
	case "uint":
		return new(big.Float).SetPrec(200).SetUint64(s.U), ""
	case "float":
		if math.IsNaN(s.F) {
			return nil, "nan"
		}
		if math.IsInf(s.F, 0) {
			return nil, "inf"
		}
		return new(big.Float).SetPrec(200).SetFloat64(s.F), ""
	}
	return nil, "nonnumeric"
}

type c03Expect struct {
	MustErr   bool        // rule(v) undefined: an error is required
	Either    bool        // not a conversion the statement defines: anything goes (but no panic)
	Want      interface{} // value to be stored when err == nil (int64 / uint64 / float64 / string / bool / time.Duration)
	WantIsNaN bool
	// FloatText: the stored string must be a numeral denoting exactly this float (its spelling is
	// not fixed by the statement, its value is)
	FloatText bool
	F         float64
}

func truncToInt(v *big.Float) *big.Int {
	i, _ := v.Int(nil) // truncates toward zero
	return i
}

func intRange(t reflect.Type) (lo, hi *big.Int) {
	bits := t.Bits()
	if t.Kind() >= reflect.Uint && t.Kind() <= reflect.Uintptr {
		return big.NewInt(0), new(big.Int).Sub(new(big.Int).Lsh(big.NewInt(1), uint(bits)), big.NewInt(1))
	}
	hi = new(big.Int).Sub(new(big.Int).Lsh(big.NewInt(1), uint(bits-1)), big.NewInt(1))
	lo = new(big.Int).Neg(new(big.Int).Lsh(big.NewInt(1), uint(bits-1)))
	return
}

func c03Rule(s c03Source, t reflect.Type) c03Expect {
	isDur := t == reflect.TypeOf(time.Duration(0))
	k := t.Kind()
	isInt := k >= reflect.Int && k <= reflect.Int64 && !isDur
	isUint := k >= reflect.Uint && k <= reflect.Uintptr
	isFloat := k == reflect.Float32 || k == reflect.Float64
	v, special := s.exact()
	switch {
	case k == reflect.Bool:
		switch s.Kind {
		case "bool":
			return c03Expect{Want: s.B}
		case "string":
			b, err := strconv.ParseBool(s.S)
			if err != nil {
				// the parse package additionally reads on/off; anything strconv rejects may fail
				return c03Expect{Either: true}
			}
			return c03Expect{Want: b}
		}
		return c03Expect{Either: true}
	case k == reflect.String:
		switch s.Kind {
		case "string":
			return c03Expect{Want: s.S}
		case "int":
			return c03Expect{Want: strconv.FormatInt(s.I, 10)}
		case "uint":
			return c03Expect{Want: strconv.FormatUint(s.U, 10)}
		case "bool":
			return c03Expect{Want: strconv.FormatBool(s.B)}
		}
		return c03Expect{FloatText: true, F: s.F} // text form of a float is not fixed by the statement, its value is
	case isInt || isUint:
		if s.Kind == "bool" {
			return c03Expect{Either: true}
		}
		if s.Kind == "string" {
			var iv *big.Int
			if isUint {
				u, err := strconv.ParseUint(s.S, 0, 64)
				if err != nil {
					return c03Expect{MustErr: true}
				}
				iv = new(big.Int).SetUint64(u)
			} else {
				i, err := strconv.ParseInt(s.S, 0, 64)
				if err != nil {
					return c03Expect{MustErr: true}
				}
				iv = big.NewInt(i)
			}
			lo, hi := intRange(t)
			if iv.Cmp(lo) < 0 || iv.Cmp(hi) > 0 {
				return c03Expect{MustErr: true}
			}
			if isUint {
				return c03Expect{Want: iv.Uint64()}
			}
			return c03Expect{Want: iv.Int64()}
		}
		if special != "" {
			return c03Expect{MustErr: true}
		}
		iv := truncToInt(v)
		lo, hi := intRange(t)
		if iv.Cmp(lo) < 0 || iv.Cmp(hi) > 0 || (isUint && v.Sign() < 0 && iv.Sign() == 0 && false) {
			return c03Expect{MustErr: true}
		}
		if isUint && v.Sign() < 0 {
			// negative for an unsigned target (also -0.5, which would truncate to 0)
			return c03Expect{MustErr: true}
		}
		if isUint {
			return c03Expect{Want: iv.Uint64()}
		}
		return c03Expect{Want: iv.Int64()}
	case isFloat:
		var f float64
		switch s.Kind {
		case "bool":
			return c03Expect{Either: true}
		case "string":
			x, err := strconv.ParseFloat(s.S, 64)
			if err != nil {
				return c03Expect{MustErr: true}
			}
			f = x
		case "int":
			f = float64(s.I)
		case "uint":
			f = float64(s.U)
		default:
			f = s.F
		}
		if k == reflect.Float32 {
			if !math.IsNaN(f) && !math.IsInf(f, 0) && math.Abs(f) > math.MaxFloat32 {
				// rounds to a float32 only if within half an ulp of MaxFloat32
				if float64(float32(f)) != f && math.IsInf(float64(float32(f)), 0) {
					return c03Expect{MustErr: true}
				}
			}
			f = float64(float32(f))
		}
		return c03Expect{Want: f, WantIsNaN: math.IsNaN(f)}
	case isDur:
		if s.Kind == "bool" {
			return c03Expect{Either: true}
		}
		if s.Kind == "string" {
			d, err := time.ParseDuration(s.S)
			if err != nil {
				return c03Expect{MustErr: true}
			}
			return c03Expect{Want: d}
		}
		if special != "" {
			return c03Expect{MustErr: true}
		}
		ns := new(big.Float).SetPrec(200).Mul(v, big.NewFloat(1e9))
		iv := truncToInt(ns)
		if !iv.IsInt64() {
			return c03Expect{MustErr: true}
		}
		if s.Kind == "float" {
			// float seconds: the product is computed in float64; accept the correctly rounded product
			p := s.F * 1e9
			if p >= 9.223372036854775807e18 || p < -9.223372036854775808e18 {
				return c03Expect{MustErr: true}
			}
			return c03Expect{Want: time.Duration(p)}
		}
		return c03Expect{Want: time.Duration(iv.Int64())}
	}
	return c03Expect{Either: true}
}

func c03Build(s c03Source, viaRef bool) (*ucfg.Config, []ucfg.Option, error) {
	c := ucfg.New()
	var err error
	switch s.Kind {
	case "int":
		err = c.SetInt("v", -1, s.I)
	case "uint":
		err = c.SetUint("v", -1, s.U)
	case "float":
		err = c.SetFloat("v", -1, s.F)
	case "string":
		err = c.SetString("v", -1, s.S)
	default:
		err = c.SetBool("v", -1, s.B)
	}
	if err != nil {
		return nil, nil, err
	}
	if !viaRef {
		return c, nil, nil
	}
	opts := []ucfg.Option{ucfg.VarExp}
	err = c.Merge(M{"r": "${v}"}, opts...)
	return c, opts, err
}

func sameStored(got reflect.Value, e c03Expect) (bool, string) {
	for got.Kind() == reflect.Ptr {
		if got.IsNil() {
			return false, "nil pointer"
		}
		got = got.Elem()
	}
	switch w := e.Want.(type) {
	case bool:
		return got.Kind() == reflect.Bool && got.Bool() == w, fmt.Sprint(got.Interface())
	case string:
		return got.Kind() == reflect.String && got.String() == w, fmt.Sprintf("%q", got.String())
	case int64:
		return got.Kind() >= reflect.Int && got.Kind() <= reflect.Int64 && got.Int() == w, fmt.Sprint(got.Interface())
	case uint64:
		return got.Kind() >= reflect.Uint && got.Kind() <= reflect.Uintptr && got.Uint() == w, fmt.Sprint(got.Interface())
	case float64:
		if got.Kind() != reflect.Float32 && got.Kind() != reflect.Float64 {
			return false, fmt.Sprint(got.Interface())
		}
		g := got.Float()
		if e.WantIsNaN {
			return math.IsNaN(g), fmt.Sprint(g)
		}
		return g == w, strconv.FormatFloat(g, 'g', -1, 64)
	case time.Duration:
		return got.Kind() == reflect.Int64 && got.Int() == int64(w), fmt.Sprint(time.Duration(got.Int()))
	}
	return false, "?"
}

func c03Space() *core.Space {
	srcs := c03Sources()
	nS, nT := len(srcs), len(c03Targets)
	// wrappings: 0 plain field, 1 pointer field, 2 via ${ref} plain, 3 via ${ref} pointer,
	// 4 pointer field pre-filled with a pointer it shares with a sibling field that is set too
	radices := []int{nS, nT, 5}
	dec := func(i int) (c03Source, reflect.Type, int) {
		d := mixedRadix(i, radices...)
		return srcs[d[0]], c03Targets[d[1]], d[2]
	}
	return &core.Space{
		Name: "unpack-conversions",
		Size: product(radices...),
		Text: func(i int) string {
			s, t, w := dec(i)
			return fmt.Sprintf("%v -> %v (%s)", s, t, [...]string{"field", "pointer field", "via ${ref}, field", "via ${ref}, pointer field", "pointer field sharing its pre-filled pointer with a sibling"}[w])
		},
		Exec: func(i int) core.Result {
			s, t, w := dec(i)
			exp := c03Rule(s, t)
			var res core.Result
			pi := core.Guard(func() {
				if w == 4 {
					// V and W start out pointing at one shared default; the config sets v (the
					// source) and then w (the number 1): V must hold the source's value afterwards
					c, _, err := c03Build(s, false)
					if err != nil {
						res = core.Fail("unpack", "BUILD", err.Error())
						return
					}
					c.SetInt("w", -1, 1)
					pt := reflect.PtrTo(t)
					st := reflect.New(reflect.StructOf([]reflect.StructField{
						{Name: "V", Type: pt, Tag: `config:"v"`},
						{Name: "W", Type: pt, Tag: `config:"w"`},
					}))
					def := reflect.New(t)
					st.Elem().Field(0).Set(def)
					st.Elem().Field(1).Set(def)
					uerr := c.Unpack(st.Interface())
					if uerr != nil && exp.MustErr {
						res = c03Judge(s, t, exp, uerr, st.Elem().Field(0), "Unpack")
						return
					}
					res = c03Judge(s, t, exp, uerr, st.Elem().Field(0), "Unpack")
					return
				}
				c, opts, err := c03Build(s, w >= 2 && w < 4)
				if err != nil {
					res = core.Fail("unpack", "BUILD", err.Error())
					return
				}
				ft := t
				if w%2 == 1 {
					ft = reflect.PtrTo(t)
				}
				name := "v"
				if w >= 2 {
					name = "r"
				}
				st := reflect.New(reflect.StructOf([]reflect.StructField{{Name: "V", Type: ft, Tag: reflect.StructTag(`config:"` + name + `"`)}}))
				uerr := c.Unpack(st.Interface(), opts...)
				res = c03Judge(s, t, exp, uerr, st.Elem().Field(0), "Unpack")
			})
			if pi != nil {
				return apiPanic("unpack", pi)
			}
			return res
		},
	}
}

func c03Judge(s c03Source, t reflect.Type, exp c03Expect, err error, got reflect.Value, entry string) core.Result {
	cell := fmt.Sprintf("%s->%s", s.Kind, t.Kind())
	if t == reflect.TypeOf(time.Duration(0)) {
		cell = s.Kind + "->Duration"
	}
	res := core.Result{Outcome: cell + "/err"}
	if err == nil {
		res.Outcome = cell + "/ok"
	}
	if exp.Either {
		res.Skipped = true
		return res
	}
	res.Nontrivial = true
	if exp.MustErr {
		if err == nil {
			return core.Fail(entry, "ACCEPTED-OUT-OF-DOMAIN "+cell, fmt.Sprintf("%v into %v must fail, but %s stored %v", s, t, entry, derefText(got)))
		}
		return res
	}
	if err != nil {
		// the statement is an either/or: refusing a representable value is not a violation
		return res
	}
	if exp.FloatText {
		for got.Kind() == reflect.Ptr && !got.IsNil() {
			got = got.Elem()
		}
		txt := got.String()
		f, perr := strconv.ParseFloat(txt, 64)
		if perr != nil && !(math.IsInf(exp.F, 0) || math.IsNaN(exp.F)) {
			return core.Fail(entry, "WRONG-VALUE "+cell, fmt.Sprintf("%v into %v: stored the text %q, which is no numeral", s, t, txt))
		}
		if perr == nil && !(f == exp.F || (math.IsNaN(f) && math.IsNaN(exp.F))) {
			return core.Fail(entry, "WRONG-VALUE "+cell, fmt.Sprintf("%v into %v: stored the text %q = %v, exact value %v", s, t, txt, f, strconv.FormatFloat(exp.F, 'g', -1, 64)))
		}
		return res
	}
	if ok, g := sameStored(got, exp); !ok {
		return core.Fail(entry, "WRONG-VALUE "+cell, fmt.Sprintf("%v into %v: stored %s, exact value %v", s, t, g, exp.Want))
	}
	return res
}

func derefText(v reflect.Value) string {
	for v.Kind() == reflect.Ptr && !v.IsNil() {
		v = v.Elem()
	}
	if v.CanInterface() {
		return fmt.Sprint(v.Interface())
	}
	return "?"
}

func c03Getters() *core.Space {
	srcs := c03Sources()
	getters := []struct {
		Name string
		T    reflect.Type
	}{{"Bool", reflect.TypeOf(false)}, {"Int", reflect.TypeOf(int64(0))}, {"Uint", reflect.TypeOf(uint64(0))}, {"Float", reflect.TypeOf(float64(0))}, {"String", reflect.TypeOf("")}}
	radices := []int{len(srcs), len(getters), 2}
	return &core.Space{
		Name: "typed-getters",
		Size: product(radices...),
		Text: func(i int) string {
			d := mixedRadix(i, radices...)
			via := ""
			if d[2] == 1 {
				via = " via ${ref}"
			}
			return fmt.Sprintf("%v read with %s()%s", srcs[d[0]], getters[d[1]].Name, via)
		},
		Exec: func(i int) core.Result {
			d := mixedRadix(i, radices...)
			s, g := srcs[d[0]], getters[d[1]]
			exp := c03Rule(s, g.T)
			var res core.Result
			pi := core.Guard(func() {
				c, opts, err := c03Build(s, d[2] == 1)
				if err != nil {
					res = core.Fail("getter", "BUILD", err.Error())
					return
				}
				name := "v"
				if d[2] == 1 {
					name = "r"
				}
				var got interface{}
				var gerr error
				switch g.Name {
				case "Bool":
					got, gerr = c.Bool(name, -1, opts...)
				case "Int":
					got, gerr = c.Int(name, -1, opts...)
				case "Uint":
					got, gerr = c.Uint(name, -1, opts...)
				case "Float":
					got, gerr = c.Float(name, -1, opts...)
				default:
					got, gerr = c.String(name, -1, opts...)
				}
				res = c03Judge(s, g.T, exp, gerr, reflect.ValueOf(got), g.Name+"()")
			})
			if pi != nil {
				return apiPanic("getter", pi)
			}
			return res
		},
	}
}

func init() {
	core.Register(&core.Check{
		ID:    "C03",
		Level: "exploration",
		Rule:  "every source value of the boundary set (for int64/uint64/float64 settings: 0, +-1, +-(2^k-1), +-2^k, +-(2^k+1) for k in {7,8,15,16,31,32,53,63,64}, their float neighbours, fractions, MaxFloat32/64 and neighbours, subnormals, NaN, +-Inf, second counts around MaxInt64/1e9; for string settings every spelling of those in decimal, +, 0x, 0b, 0o, leading 0, .0, e0, 's' suffix, underscores, exponents, blanks, bool and duration words) x 22 target types (16 primitive kinds incl. uintptr and time.Duration + 6 named types) x {field, pointer field, via ${ref}} and the 5 typed getters; oracle on math/big: success => the stored value is exactly rule(v); rule(v) undefined => error; non-trivial = the pair is a conversion the statement defines",
		Assumptions: []string{
			"boundary values of every sized type and every syntax class, not all 2^64 values",
			"the statement is an either/or: refusing a representable value is not an alarm (successes per cell are visible in the outcome labels); conversions the statement does not define (bool<->number, text form of floats, non-strconv bool words) are executed but not compared",
			"float targets: exact means correctly rounded; float seconds into Duration: the float64 product, truncated",
		},
		Spaces: func(tier string) []*core.Space { return []*core.Space{c03Space(), c03Getters(), c03ParsedText()} },
	})
}

var _ = strings.TrimSpace
