package checks

import (
	"errors"
	"fmt"
	"reflect"

	ucfg "github.com/elastic/go-ucfg"

	"verif/internal/core"
	"verif/internal/valid"
)

// C04, generated family: every validating leaf type x every carrier (field, pointer, list,
// array, map, interface, lists/maps of pointers) x pre-fill (none, valid, invalid) x the
// value the configuration gives (absent, valid, invalid, zero, explicit null; for lists and
// maps also next to a valid entry / under a new key). Oracle: the statement itself - when
// Unpack returns nil, the independent walker of internal/valid must accept the result.

type c04NZInt int

func (n c04NZInt) Validate() error {
	if n == 0 {
		return errors.New("zero is not allowed")
	}
	return nil
}

type c04NZStruct struct{ A int }

func (s c04NZStruct) Validate() error {
	if s.A == 0 {
		return errors.New("A=0 is not allowed")
	}
	return nil
}

func c04Num(x interface{}) (int, bool) {
	switch n := x.(type) {
	case int64:
		return int(n), true
	case uint64:
		return int(n), true
	case float64:
		return int(n), true
	case int:
		return n, true
	}
	return 0, false
}

// structs that unpack themselves
type c04UStruct struct{ V int }

func (u *c04UStruct) Unpack(x interface{}) error {
	if n, ok := c04Num(x); ok {
		u.V = n
	}
	return nil
}
func (u c04UStruct) Validate() error {
	if u.V == 13 {
		return errors.New("V=13 is not allowed")
	}
	return nil
}

type c04UStructP struct{ V int }

func (u *c04UStructP) Unpack(x interface{}) error {
	if n, ok := c04Num(x); ok {
		u.V = n
	}
	return nil
}
func (u *c04UStructP) Validate() error {
	if u.V == 13 {
		return errors.New("V=13 is not allowed")
	}
	return nil
}

type c04Leaf struct {
	name string
	mk   func(n int) reflect.Value
	cfg  func(n int) interface{}
}

func c04Leaves() []c04Leaf {
	num := func(n int) interface{} { return n }
	obj := func(n int) interface{} { return M{"a": n} }
	return []c04Leaf{
		{"vInt", func(n int) reflect.Value { return reflect.ValueOf(vInt(n)) }, num},
		{"vPtrInt", func(n int) reflect.Value { return reflect.ValueOf(vPtrInt(n)) }, num},
		{"uvInt", func(n int) reflect.Value { return reflect.ValueOf(uvInt(n)) }, num},
		{"c04NZInt", func(n int) reflect.Value { return reflect.ValueOf(c04NZInt(n)) }, num},
		{"vStruct", func(n int) reflect.Value { return reflect.ValueOf(vStruct{n}) }, obj},
		{"vPtrStruct", func(n int) reflect.Value { return reflect.ValueOf(vPtrStruct{n}) }, obj},
		{"c04NZStruct", func(n int) reflect.Value { return reflect.ValueOf(c04NZStruct{n}) }, obj},
		{"c04UStruct", func(n int) reflect.Value { return reflect.ValueOf(c04UStruct{n}) }, num},
		{"c04UStructP", func(n int) reflect.Value { return reflect.ValueOf(c04UStructP{n}) }, num},
	}
}

var c04Carriers = []string{"T", "*T", "[]T", "[1]T", "map[string]T", "interface{}(T)", "interface{}(*T)", "[]*T", "map[string]*T"}
var c04Prefills = []string{"none", "valid(1)", "invalid(13)"}

// the value given by the configuration: shape x number
var c04Given = []string{"absent", "valid(2)", "13", "0", "null", "second entry valid(2)", "second entry 13", "second entry 0", "second entry null"}

func c04Validating() *core.Space {
	leaves := c04Leaves()
	radices := []int{len(leaves), len(c04Carriers), len(c04Prefills), len(c04Given)}
	ptrTo := func(v reflect.Value) reflect.Value {
		p := reflect.New(v.Type())
		p.Elem().Set(v)
		return p
	}
	build := func(i int) (target reflect.Value, cfg interface{}, text string) {
		d := mixedRadix(i, radices...)
		lf, carrier, pre, given := leaves[d[0]], d[1], d[2], d[3]
		T := lf.mk(1).Type()
		var ft reflect.Type
		switch carrier {
		case 0:
			ft = T
		case 1:
			ft = reflect.PtrTo(T)
		case 2:
			ft = reflect.SliceOf(T)
		case 3:
			ft = reflect.ArrayOf(1, T)
		case 4:
			ft = reflect.MapOf(reflect.TypeOf(""), T)
		case 5, 6:
			ft = reflect.TypeOf((*interface{})(nil)).Elem()
		case 7:
			ft = reflect.SliceOf(reflect.PtrTo(T))
		case 8:
			ft = reflect.MapOf(reflect.TypeOf(""), reflect.PtrTo(T))
		}
		st := reflect.New(reflect.StructOf([]reflect.StructField{{Name: "F", Type: ft, Tag: `config:"f"`}}))
		if pre > 0 {
			pv := lf.mk([]int{0, 1, 13}[pre])
			f := st.Elem().Field(0)
			switch carrier {
			case 0, 5:
				f.Set(pv)
			case 1, 6:
				f.Set(ptrTo(pv))
			case 2:
				s := reflect.MakeSlice(ft, 1, 1)
				s.Index(0).Set(pv)
				f.Set(s)
			case 3:
				f.Index(0).Set(pv)
			case 4:
				m := reflect.MakeMap(ft)
				m.SetMapIndex(reflect.ValueOf("k"), pv)
				f.Set(m)
			case 7:
				s := reflect.MakeSlice(ft, 1, 1)
				s.Index(0).Set(ptrTo(pv))
				f.Set(s)
			case 8:
				m := reflect.MakeMap(ft)
				m.SetMapIndex(reflect.ValueOf("k"), ptrTo(pv))
				f.Set(m)
			}
		}
		var val interface{}
		switch given % 5 {
		case 1:
			val = lf.cfg(2)
		case 2:
			val = lf.cfg(13)
		case 3:
			val = lf.cfg(0)
		case 4, 0:
			val = nil
		}
		second := given >= 5
		if second {
			switch (given - 5) % 4 {
			case 0:
				val = lf.cfg(2)
			case 1:
				val = lf.cfg(13)
			case 2:
				val = lf.cfg(0)
			case 3:
				val = nil
			}
		}
		switch {
		case given == 0:
			cfg = M{"zz": 1}
		case carrier == 2 || carrier == 3 || carrier == 7:
			if second {
				cfg = M{"f": L{lf.cfg(2), val}}
			} else {
				cfg = M{"f": L{val}}
			}
		case carrier == 4 || carrier == 8:
			if second {
				cfg = M{"f": M{"k": lf.cfg(2), "j": val}}
			} else {
				cfg = M{"f": M{"k": val}}
			}
		default:
			cfg = M{"f": val}
		}
		text = fmt.Sprintf("field F of %s over %s, pre-filled %s, configuration gives %s: %v", c04Carriers[carrier], lf.name, c04Prefills[pre], c04Given[given], cfg)
		return st, cfg, text
	}
	return &core.Space{
		Name: "validating-leaf-x-carrier-x-prefill-x-given",
		Size: product(radices...),
		Text: func(i int) string { _, _, t := build(i); return t },
		Exec: func(i int) core.Result {
			d := mixedRadix(i, radices...)
			target, cfgIn, text := build(i)
			var res core.Result
			if d[3] >= 5 && (d[1] == 0 || d[1] == 1 || d[1] == 5 || d[1] == 6) {
				res.Skipped = true // a second entry exists for lists and maps only
				return res
			}
			pi := core.Guard(func() {
				cfg, err := ucfg.NewFrom(cfgIn)
				if err != nil {
					res = core.Fail("validating", "BUILD", err.Error())
					return
				}
				uerr := cfg.Unpack(target.Interface())
				if uerr == nil {
					if v := valid.Check(target, "validate"); v != nil {
						res = core.Fail("validating", fmt.Sprintf("INVALID-RESULT-ACCEPTED %s in %s", leaves[d[0]].name, c04Carriers[d[1]]), fmt.Sprintf("%s: Unpack returned nil, result %+v violates: %s", text, target.Elem().Interface(), v))
						return
					}
					res.Outcome = "accepted"
				} else {
					res.Outcome = "rejected"
				}
				res.Nontrivial = true
			})
			if pi != nil {
				return apiPanic("validating", pi)
			}
			return res
		},
	}
}
