package checks

import (
	"fmt"
	"reflect"
	"sort"
	"strconv"
	"strings"

	ucfg "github.com/elastic/go-ucfg"

	"verif/internal/core"
	"verif/internal/tree"
)

// C05: every input shape normalizes to the same canonical tree.

type repKind int

const (
	kMap repKind = iota
	kIMap
	kStruct
	kConfig
	kConfigVal
	kPtr
	kPtrPtr
	kTyped
	kIfacePtr // pointer to an interface holding the map rep (*interface{})
	kChildCfg // *Config that is a named child of another config (obtained with Child), held under another key here
	kElemCfg  // *Config that is a list element of another config
	numRepKinds
)

func (k repKind) String() string {
	return [...]string{"map[string]interface{}", "map[interface{}]interface{}", "struct", "*Config", "Config", "*map", "**map", "typed", "*interface{}", "*Config (child of another config)", "*Config (list element of another config)"}[k]
}

var c05Leaves = []interface{}{true, int(1), uint(2), int(-3), 1.5, "s", "", int8(4), float32(2.5), uint16(7), int64(-1 << 40), uint64(1<<63 + 5), float64(1 << 62)}

// typedLeaves gives every leaf of t a value from the typed menu (cyclic by leaf index).
func typedLeaves(t *tree.Node, offset int) *tree.Node {
	c := t.Clone()
	i := offset
	var walk func(n *tree.Node)
	walk = func(n *tree.Node) {
		if n.K == tree.Leaf {
			n.V = c05Leaves[i%len(c05Leaves)]
			i++
			return
		}
		keys := make([]string, 0, len(n.D))
		for k := range n.D {
			keys = append(keys, k)
		}
		sort.Strings(keys)
		for _, k := range keys {
			walk(n.D[k])
		}
		for _, e := range n.A {
			walk(e)
		}
	}
	walk(c)
	return c
}

var tIface = reflect.TypeOf((*interface{})(nil)).Elem()

// buildRep renders t in the representation chosen for its depth.
func buildRep(t *tree.Node, scheme []repKind, depth int) interface{} {
	switch t.K {
	case tree.Nil:
		return nil
	case tree.Leaf:
		return t.V
	}
	kind := scheme[depth%len(scheme)]
	isList := t.HasA && len(t.D) == 0
	sub := func(n *tree.Node) interface{} { return buildRep(n, scheme, depth+1) }
	plain := func() interface{} {
		if isList {
			out := make([]interface{}, len(t.A))
			for i, e := range t.A {
				out[i] = sub(e)
			}
			return out
		}
		m := map[string]interface{}{}
		for k, v := range t.D {
			m[k] = sub(v)
		}
		return m
	}
	switch kind {
	case kIMap:
		if isList {
			return plain()
		}
		m := map[interface{}]interface{}{}
		for k, v := range t.D {
			m[k] = sub(v)
		}
		return m
	case kStruct:
		if isList || len(t.D) == 0 {
			return plain()
		}
		keys := make([]string, 0, len(t.D))
		for k := range t.D {
			keys = append(keys, k)
		}
		sort.Strings(keys)
		// in front of every data field: a field that is ignored, then an inlined struct without
		// exported settings - neither contributes a setting, neither may influence its neighbour
		var fields []reflect.StructField
		var dataIdx []int
		for i, k := range keys {
			// (every other tag lists several options: a name, ignore and a merge policy; inline and a policy)
			ignTag, inlTag := `config:",ignore"`, `config:",inline"`
			if i%2 == 1 {
				ignTag, inlTag = fmt.Sprintf(`config:"secret%d,ignore,replace"`, i), `config:",inline,append"`
			}
			fields = append(fields,
				reflect.StructField{Name: fmt.Sprintf("Ign%d", i), Type: reflect.TypeOf(0), Tag: reflect.StructTag(ignTag)},
			)
			if i == 0 {
				fields = append(fields,
					reflect.StructField{Name: "IgnM", Type: reflect.TypeOf(""), Tag: `config:"hidden,ignore,replace"`},
					reflect.StructField{Name: "InlM", Type: reflect.TypeOf(struct{ Q int }{}), Tag: `config:",inline,ignore"`},
				)
			}
			if i%2 == 1 || i == 0 {
				fields = append(fields, reflect.StructField{Name: fmt.Sprintf("Inl%d", i), Type: reflect.TypeOf(struct{}{}), Tag: reflect.StructTag(inlTag)})
			}
			f := reflect.StructField{Name: "F" + strings.ToUpper(k), Type: tIface, Tag: reflect.StructTag(fmt.Sprintf(`config:"%s"`, k))}
			if i%2 == 0 {
				f = reflect.StructField{Name: strings.ToUpper(k), Type: tIface}
			}
			dataIdx = append(dataIdx, len(fields))
			fields = append(fields, f)
			if i%2 == 1 {
				// an untagged field behind a tagged one, holding nothing
				fields = append(fields, reflect.StructField{Name: fmt.Sprintf("Zz%d", i), Type: tIface})
			}
		}
		st := reflect.New(reflect.StructOf(fields)).Elem()
		for i, k := range keys {
			st.FieldByName(fmt.Sprintf("Ign%d", i)).SetInt(99)
			if i == 0 {
				st.FieldByName("IgnM").SetString("do not copy")
				st.FieldByName("InlM").Field(0).SetInt(98)
			}
			if v := sub(t.D[k]); v != nil {
				st.Field(dataIdx[i]).Set(reflect.ValueOf(v))
			}
		}
		return st.Interface()
	case kConfig, kConfigVal:
		c, err := ucfg.NewFrom(plain())
		if err != nil {
			panic("harness: " + err.Error())
		}
		if kind == kConfigVal {
			return *c
		}
		return c
	case kChildCfg, kElemCfg:
		var parent interface{} = map[string]interface{}{"formername": plain(), "sibling": 1}
		if kind == kElemCfg {
			parent = []interface{}{0, plain()}
		}
		pc, err := ucfg.NewFrom(parent)
		if err != nil {
			panic("harness: " + err.Error())
		}
		var c *ucfg.Config
		if kind == kElemCfg {
			c, err = pc.Child("", 1)
		} else {
			c, err = pc.Child("formername", -1)
		}
		if err != nil {
			panic("harness: " + err.Error())
		}
		return c
	case kPtr:
		v := plain()
		p := reflect.New(reflect.TypeOf(v))
		p.Elem().Set(reflect.ValueOf(v))
		return p.Interface()
	case kPtrPtr:
		v := plain()
		p := reflect.New(reflect.TypeOf(v))
		p.Elem().Set(reflect.ValueOf(v))
		pp := reflect.New(p.Type())
		pp.Elem().Set(p)
		return pp.Interface()
	case kIfacePtr:
		var v interface{} = plain()
		return &v
	case kTyped:
		// homogeneous leaf children => typed map / slice / array
		var elems []*tree.Node
		if isList {
			elems = t.A
		} else {
			for _, v := range t.D {
				elems = append(elems, v)
			}
		}
		if len(elems) == 0 {
			return plain()
		}
		var et reflect.Type
		for _, e := range elems {
			if e.K != tree.Leaf {
				return plain()
			}
			if et == nil {
				et = reflect.TypeOf(e.V)
			} else if et != reflect.TypeOf(e.V) {
				return plain()
			}
		}
		if isList {
			if depth%2 == 0 {
				arr := reflect.New(reflect.ArrayOf(len(elems), et)).Elem()
				for i, e := range elems {
					arr.Index(i).Set(reflect.ValueOf(e.V))
				}
				return arr.Interface()
			}
			sl := reflect.MakeSlice(reflect.SliceOf(et), len(elems), len(elems))
			for i, e := range elems {
				sl.Index(i).Set(reflect.ValueOf(e.V))
			}
			return sl.Interface()
		}
		m := reflect.MakeMap(reflect.MapOf(reflect.TypeOf(""), et))
		for k, v := range t.D {
			m.SetMapIndex(reflect.ValueOf(k), reflect.ValueOf(v.V))
		}
		return m.Interface()
	}
	return plain()
}

// homogenize makes the leaves below every container of depth 1 share one type, so that kTyped applies.
func homogenize(t *tree.Node) *tree.Node {
	c := t.Clone()
	var walk func(n *tree.Node)
	walk = func(n *tree.Node) {
		if n.K != tree.Cont {
			return
		}
		var first interface{}
		all := true
		each := func(e *tree.Node) {
			if e.K == tree.Leaf {
				if first == nil {
					first = e.V
				}
			} else {
				all = false
			}
		}
		for _, v := range n.D {
			each(v)
		}
		for _, e := range n.A {
			each(e)
		}
		if all && first != nil {
			i := 0
			set := func(e *tree.Node) {
				switch f := first.(type) {
				case string:
					e.V = f + strconv.Itoa(i)
				case int:
					e.V = f + i
				case uint:
					e.V = f + uint(i)
				case float64:
					e.V = f + float64(i)
				case int8:
					e.V = f + int8(i)
				case bool:
					e.V = f
				default:
					e.V = first
				}
				i++
			}
			keys := make([]string, 0, len(n.D))
			for k := range n.D {
				keys = append(keys, k)
			}
			sort.Strings(keys)
			for _, k := range keys {
				set(n.D[k])
			}
			for _, e := range n.A {
				set(e)
			}
		}
		for _, v := range n.D {
			walk(v)
		}
		for _, e := range n.A {
			walk(e)
		}
	}
	walk(c)
	return c
}

func c05Reps(ts []*tree.Node, schemes [][]repKind) *core.Space {
	n, ns := len(ts), len(schemes)
	dec := func(i int) (*tree.Node, []repKind) {
		d := mixedRadix(i, n, ns)
		t := typedLeaves(ts[d[0]], d[0])
		sc := schemes[d[1]]
		for _, k := range sc {
			if k == kTyped {
				t = homogenize(t)
			}
		}
		return t, sc
	}
	return &core.Space{
		Name: "representations",
		Size: n * ns,
		Text: func(i int) string {
			t, sc := dec(i)
			return fmt.Sprintf("tree=%s representation per level=%v", t, sc)
		},
		Exec: func(i int) core.Result {
			t, sc := dec(i)
			var res core.Result
			pi := core.Guard(func() {
				want := wrapV(t).Canon()
				sig := fmt.Sprintf("%v/%v %s", sc[0], sc[len(sc)-1], kindOf(t))
				c, err := ucfg.NewFrom(map[string]interface{}{"v": buildRep(t, sc, 0)})
				if err != nil {
					res = core.Fail("reps", "REJECTED "+sig, "NewFrom failed: "+err.Error())
					return
				}
				got, err := canonOfConfig(c)
				if err != nil {
					res = core.Fail("reps", "UNPACK-ERROR "+sig, err.Error())
					return
				}
				if got != want {
					res = core.Fail("reps", "DATA-DIFFERS "+sig, fmt.Sprintf("model=%s impl=%s", want, got))
					return
				}
				// the representation directly at top level (containers only)
				if t.K == tree.Cont && !(t.HasA && len(t.D) > 0) {
					c2, err := ucfg.NewFrom(buildRep(t, sc, 0))
					if err != nil {
						res = core.Fail("reps", "REJECTED-TOPLEVEL "+sig, "NewFrom failed: "+err.Error())
						return
					}
					if v := compareUnpackCanon(c2, t); v != "" {
						res = core.Fail("reps", "DATA-DIFFERS-TOPLEVEL "+sig, v)
						return
					}
				}
				if v := idempotence(c, wrapV(t)); v != nil {
					res = core.Result{Viol: v, Nontrivial: true}
					return
				}
				res.Nontrivial = t.K == tree.Cont && t.Leaves() > 0
				res.Outcome = sig
			})
			if pi != nil {
				return apiPanic("reps", pi)
			}
			return res
		},
	}
}

func compareUnpackCanon(c *ucfg.Config, t *tree.Node) string {
	if t.HasA && len(t.D) == 0 {
		var l []interface{}
		if err := c.Unpack(&l); err != nil {
			return "Unpack(slice): " + err.Error()
		}
		if got, want := tree.CanonGo(l), t.Canon(); got != want {
			return fmt.Sprintf("model=%s impl=%s", want, got)
		}
		return ""
	}
	got, err := canonOfConfig(c)
	if err != nil {
		return err.Error()
	}
	if want := t.Canon(); got != want {
		return fmt.Sprintf("model=%s impl=%s", want, got)
	}
	return ""
}

// idempotence: feeding the unpacked result back in yields an observationally identical config.
func idempotence(c *ucfg.Config, t *tree.Node) *core.Violation {
	m, err := unpackGeneric(c)
	if err != nil {
		return &core.Violation{Sub: "idempotence", Sig: "IDEM unpack", Detail: err.Error()}
	}
	c2, err := ucfg.NewFrom(m)
	if err != nil {
		return &core.Violation{Sub: "idempotence", Sig: "IDEM rejected", Detail: "NewFrom(Unpack(c)) failed: " + err.Error()}
	}
	m2, err := unpackGeneric(c2)
	if err != nil {
		return &core.Violation{Sub: "idempotence", Sig: "IDEM unpack2", Detail: err.Error()}
	}
	if a, b := tree.CanonGo(m), tree.CanonGo(m2); a != b {
		return &core.Violation{Sub: "idempotence", Sig: "IDEM data", Detail: fmt.Sprintf("first %s second %s", a, b)}
	}
	if a, b := fmt.Sprint(c.FlattenedKeys()), fmt.Sprint(c2.FlattenedKeys()); a != b {
		return &core.Violation{Sub: "idempotence", Sig: "IDEM FlattenedKeys", Detail: fmt.Sprintf("first %s second %s (tree %s)", a, b, t)}
	}
	// structure at every path holding a non-nil value
	var viol *core.Violation
	var walk func(n *tree.Node, path string)
	walk = func(n *tree.Node, path string) {
		if viol != nil || n.K == tree.Nil || (n.K == tree.Cont && n.Leaves() == 0) {
			return // nil and empty objects are considered equal: nothing to compare below
		}
		if path != "" {
			h1, e1 := c.Has(path, -1, ucfg.PathSep("."))
			h2, e2 := c2.Has(path, -1, ucfg.PathSep("."))
			if h1 != h2 || (e1 == nil) != (e2 == nil) {
				viol = &core.Violation{Sub: "idempotence", Sig: "IDEM Has", Detail: fmt.Sprintf("Has(%q): first (%v,%v) second (%v,%v)", path, h1, e1, h2, e2)}
				return
			}
			if n.K == tree.Cont && n.Leaves() > 0 {
				a, e1 := c.Child(path, -1, ucfg.PathSep("."))
				b, e2 := c2.Child(path, -1, ucfg.PathSep("."))
				if e1 != nil || e2 != nil {
					viol = &core.Violation{Sub: "idempotence", Sig: "IDEM Child", Detail: fmt.Sprintf("Child(%q): %v / %v", path, e1, e2)}
					return
				}
				if a.IsDict() != b.IsDict() || a.IsArray() != b.IsArray() {
					viol = &core.Violation{Sub: "idempotence", Sig: "IDEM IsDict/IsArray", Detail: fmt.Sprintf("at %q: first dict=%v array=%v second dict=%v array=%v", path, a.IsDict(), a.IsArray(), b.IsDict(), b.IsArray())}
					return
				}
				n1, _ := a.CountField("")
				n2, _ := b.CountField("")
				if n.Leaves() == len(n.D)+len(n.A) && n1 != n2 {
					viol = &core.Violation{Sub: "idempotence", Sig: "IDEM CountField", Detail: fmt.Sprintf("at %q: first %d second %d", path, n1, n2)}
					return
				}
			}
		}
		if n.K != tree.Cont {
			return
		}
		j := func(s string) string {
			if path == "" {
				return s
			}
			return path + "." + s
		}
		for k, v := range n.D {
			walk(v, j(k))
		}
		for i, e := range n.A {
			walk(e, j(strconv.Itoa(i)))
		}
	}
	walk(t, "")
	return viol
}

// ---- partial flattenings ----

type flatEdge struct {
	top, sub string // sub is a key or a decimal index
}

// flattenings: every top-level entry whose value is a container can have each of its
// entries spelled nested or dotted ("top.sub"); all 2^edges spellings.
func flattenEdges(t *tree.Node) []flatEdge {
	var es []flatEdge
	keys := make([]string, 0, len(t.D))
	for k := range t.D {
		keys = append(keys, k)
	}
	sort.Strings(keys)
	for _, k := range keys {
		c := t.D[k]
		if c.K != tree.Cont {
			continue
		}
		sk := make([]string, 0, len(c.D))
		for s := range c.D {
			sk = append(sk, s)
		}
		sort.Strings(sk)
		for _, s := range sk {
			es = append(es, flatEdge{k, s})
		}
		for i := range c.A {
			es = append(es, flatEdge{k, strconv.Itoa(i)})
		}
	}
	return es
}

func flattenWith(t *tree.Node, edges []flatEdge, mask int) map[string]interface{} {
	dotted := map[flatEdge]bool{}
	for i, e := range edges {
		if mask&(1<<i) != 0 {
			dotted[e] = true
		}
	}
	out := map[string]interface{}{}
	for k, c := range t.D {
		if c.K != tree.Cont {
			out[k] = c.ToGo()
			continue
		}
		rest := &tree.Node{K: tree.Cont}
		any := false
		for s, v := range c.D {
			if dotted[flatEdge{k, s}] {
				out[k+"."+s] = v.ToGo()
			} else {
				if rest.D == nil {
					rest.D = map[string]*tree.Node{}
				}
				rest.D[s] = v
				any = true
			}
		}
		// list entries: dotted ones are taken out, the nested rest keeps its positions only
		// when a prefix stays nested (otherwise indices would shift)
		keepUpTo := len(c.A)
		for i := len(c.A) - 1; i >= 0; i-- {
			if dotted[flatEdge{k, strconv.Itoa(i)}] {
				keepUpTo = i
			}
		}
		for i, v := range c.A {
			if i >= keepUpTo {
				out[k+"."+strconv.Itoa(i)] = v.ToGo()
			} else {
				rest.A = append(rest.A, v)
				rest.HasA = true
				any = true
			}
		}
		if any || (len(c.D) == 0 && len(c.A) == 0) {
			out[k] = rest.ToGo()
			if len(c.D) == 0 && len(c.A) == 0 {
				out[k] = c.ToGo()
			}
		}
	}
	return out
}

func c05Flatten(ts []*tree.Node) *core.Space {
	var cases []struct {
		t     *tree.Node
		edges []flatEdge
		mask  int
	}
	for i, t := range ts {
		if t.K != tree.Cont || t.HasA || len(t.D) == 0 {
			continue
		}
		tt := typedLeaves(t, i)
		es := flattenEdges(tt)
		if len(es) == 0 || len(es) > 6 {
			continue
		}
		for m := 1; m < 1<<len(es); m++ {
			cases = append(cases, struct {
				t     *tree.Node
				edges []flatEdge
				mask  int
			}{tt, es, m})
		}
	}
	return &core.Space{
		Name: "partial-flattenings",
		Size: len(cases),
		Text: func(i int) string {
			c := cases[i]
			return fmt.Sprintf("tree=%s spelled as %v", c.t, sortedMapText(flattenWith(c.t, c.edges, c.mask)))
		},
		Exec: func(i int) core.Result {
			c := cases[i]
			var res core.Result
			pi := core.Guard(func() {
				in := flattenWith(c.t, c.edges, c.mask)
				// as a map (sorted insertion order under the overlay) and as structs whose field
				// order fixes the insertion order ascending and descending
				keys := make([]string, 0, len(in))
				for k := range in {
					keys = append(keys, k)
				}
				sort.Strings(keys)
				mkStruct := func(rev bool) interface{} {
					ks := append([]string{}, keys...)
					if rev {
						for i, j := 0, len(ks)-1; i < j; i, j = i+1, j-1 {
							ks[i], ks[j] = ks[j], ks[i]
						}
					}
					var fields []reflect.StructField
					for i, k := range ks {
						fields = append(fields, reflect.StructField{Name: fmt.Sprintf("F%d", i), Type: tIface, Tag: reflect.StructTag(fmt.Sprintf(`config:"%s"`, k))})
					}
					st := reflect.New(reflect.StructOf(fields)).Elem()
					for i, k := range ks {
						if in[k] != nil {
							st.Field(i).Set(reflect.ValueOf(in[k]))
						}
					}
					return st.Interface()
				}
				type formT struct {
					name string
					v    interface{}
					sep  string
				}
				forms := []formT{{"map", in, "."}, {"struct-ascending", mkStruct(false), "."}, {"struct-descending", mkStruct(true), "."}}
				// the same spellings with separators of several characters
				for _, sep := range []string{"::", "->", "/"} {
					orig := in
					in = map[string]interface{}{}
					for k, v := range orig {
						in[strings.Replace(k, ".", sep, -1)] = v
					}
					for i := range keys {
						keys[i] = strings.Replace(keys[i], ".", sep, -1)
					}
					forms = append(forms, formT{"map sep=" + sep, in, sep}, formT{"struct-ascending sep=" + sep, mkStruct(false), sep})
					for i := range keys {
						keys[i] = strings.Replace(keys[i], sep, ".", -1)
					}
					in = orig
				}
				for _, form := range forms {
					cfg, err := ucfg.NewFrom(form.v, ucfg.PathSep(form.sep))
					if err != nil {
						res = core.Fail("flatten", "FLATTEN rejected "+form.name, "NewFrom failed: "+err.Error())
						return
					}
					got, err := canonOfConfig(cfg)
					if err != nil {
						res = core.Fail("flatten", "FLATTEN unpack "+form.name, err.Error())
						return
					}
					if want := c.t.Canon(); got != want {
						res = core.Fail("flatten", "FLATTEN data differs "+form.name, fmt.Sprintf("nested form gives %s, this spelling gives %s", want, got))
						return
					}
				}
				res.Nontrivial = true
				res.Outcome = fmt.Sprintf("edges%d", len(c.edges))
			})
			if pi != nil {
				return apiPanic("flatten", pi)
			}
			return res
		},
	}
}

func sortedMapText(m map[string]interface{}) string {
	keys := make([]string, 0, len(m))
	for k := range m {
		keys = append(keys, k)
	}
	sort.Strings(keys)
	var sb strings.Builder
	sb.WriteString("{")
	for i, k := range keys {
		if i > 0 {
			sb.WriteString(", ")
		}
		fmt.Fprintf(&sb, "%q: %v", k, m[k])
	}
	sb.WriteString("}")
	return sb.String()
}

// ---- duplicates ----

type dupEntry struct {
	Key string
	Val *tree.Node
}

// expand returns the set of leaf paths and container paths an entry defines.
func (e dupEntry) paths() (leaves, conts []string) {
	var walk func(n *tree.Node, p string)
	walk = func(n *tree.Node, p string) {
		if n.K == tree.Leaf {
			leaves = append(leaves, p)
			return
		}
		conts = append(conts, p)
		for k, v := range n.D {
			walk(v, p+"."+k)
		}
	}
	segs := strings.Split(e.Key, ".")
	for i := 1; i < len(segs); i++ {
		conts = append(conts, strings.Join(segs[:i], "."))
	}
	walk(e.Val, e.Key)
	return
}

// c05Dups: inputs over keys {a, a.b, a.c, a.b.c} presented through a struct whose field
// order fixes the insertion order; an input that defines a setting twice (leaf/leaf or
// leaf/container at the same path) must be rejected in every insertion order, an input
// without such a collision must be accepted and give the union.
func c05Dups() *core.Space {
	L := func(s string) *tree.Node { return tree.LeafN(s) }
	menu := []dupEntry{
		{"a", L("x")}, {"a", tree.Dict("b", L("x"))}, {"a", tree.Dict("c", L("x"))}, {"a", tree.Dict("b", tree.Dict("c", L("x")))},
		{"a.b", L("x")}, {"a.b", tree.Dict("c", L("x"))}, {"a.b", tree.Dict("d", L("x"))},
		{"a.c", L("x")}, {"a.b.c", L("x")}, {"a.b.d", L("x")},
	}
	var cases [][]dupEntry
	nm := len(menu)
	for i := 0; i < nm; i++ {
		for j := 0; j < nm; j++ {
			if i != j && menu[i].Key != menu[j].Key {
				cases = append(cases, []dupEntry{menu[i], menu[j]})
			}
		}
	}
	for i := 0; i < nm; i++ {
		for j := 0; j < nm; j++ {
			for k := 0; k < nm; k++ {
				if menu[i].Key != menu[j].Key && menu[j].Key != menu[k].Key && menu[i].Key != menu[k].Key {
					cases = append(cases, []dupEntry{menu[i], menu[j], menu[k]})
				}
			}
		}
	}
	text := func(es []dupEntry) string {
		var s []string
		for i, e := range es {
			s = append(s, fmt.Sprintf("%q: %s", e.Key, tree.Label(e.Val, fmt.Sprintf("v%d_", i))))
		}
		return "{" + strings.Join(s, ", ") + "} (inserted in this order)"
	}
	return &core.Space{
		Name: "duplicate-settings",
		Size: len(cases),
		Text: func(i int) string { return text(cases[i]) },
		Exec: func(i int) core.Result {
			es := cases[i]
			// model: collision iff some path is a leaf in one entry and defined (leaf or container) in another
			collide := false
			for x := range es {
				lx, _ := es[x].paths()
				for y := range es {
					if x == y {
						continue
					}
					ly, cy := es[y].paths()
					for _, p := range lx {
						for _, q := range append(append([]string{}, ly...), cy...) {
							if p == q {
								collide = true
							}
						}
					}
				}
			}
			var res core.Result
			pi := core.Guard(func() {
				// struct with one field per entry, in insertion order
				var fields []reflect.StructField
				for k, e := range es {
					fields = append(fields, reflect.StructField{Name: fmt.Sprintf("F%d", k), Type: tIface, Tag: reflect.StructTag(fmt.Sprintf(`config:"%s"`, e.Key))})
				}
				st := reflect.New(reflect.StructOf(fields)).Elem()
				union := tree.New()
				for k, e := range es {
					v := tree.Label(e.Val, fmt.Sprintf("v%d_", k))
					st.Field(k).Set(reflect.ValueOf(v.ToGo()))
					src := tree.New()
					tree.Set(src, tree.ParseAddr(e.Key, -1, "."), v)
					union = tree.Merge(tree.Default, union, src)
				}
				c, err := ucfg.NewFrom(st.Interface(), ucfg.PathSep("."))
				// the same entries spelled with a separator of two characters must get the same verdict
				var fields2 []reflect.StructField
				for k, e := range es {
					fields2 = append(fields2, reflect.StructField{Name: fmt.Sprintf("F%d", k), Type: tIface, Tag: reflect.StructTag(fmt.Sprintf(`config:"%s"`, strings.Replace(e.Key, ".", "::", -1)))})
				}
				st2 := reflect.New(reflect.StructOf(fields2)).Elem()
				for k := range es {
					st2.Field(k).Set(st.Field(k))
				}
				if _, err2 := ucfg.NewFrom(st2.Interface(), ucfg.PathSep("::")); (err2 == nil) != (err == nil) {
					res = core.Fail("duplicates", "SEPARATOR-CHANGES-VERDICT", fmt.Sprintf("with PathSep(\".\"): %v; the same keys spelled with PathSep(\"::\"): %v", err, err2))
					return
				}
				if collide {
					if err == nil {
						got, _ := canonOfConfig(c)
						res = core.Fail("duplicates", "DUPLICATE-ACCEPTED", "input defines a setting twice but was accepted as "+got)
						return
					}
					res.Outcome = "rejected"
				} else {
					if err != nil {
						res = core.Fail("duplicates", "NON-DUPLICATE-REJECTED", "no setting is defined twice, but: "+err.Error())
						return
					}
					got, _ := canonOfConfig(c)
					if want := union.Canon(); got != want {
						res = core.Fail("duplicates", "UNION-DIFFERS", fmt.Sprintf("model=%s impl=%s", want, got))
						return
					}
					res.Outcome = "accepted"
				}
				res.Nontrivial = true
			})
			if pi != nil {
				return apiPanic("duplicates", pi)
			}
			return res
		},
	}
}

func init() {
	core.Register(&core.Check{
		ID:    "C05",
		Level: "exploration",
		Rule:  "every bounded tree with typed leaves (bool, ints of several kinds and signs, uint, floats, strings incl. empty) in every combination of Go representations per level (generic map, interface-keyed map, StructOf struct with and without tags, *Config (a root, a named child and a list element of another config), Config by value, pointers, pointer to interface, typed map/slice/array) must unpack to the canonical data of the tree and be idempotent under NewFrom(Unpack(.)) (data, FlattenedKeys, Has, IsDict/IsArray, CountField); every partial flattening into dotted keys (separators . :: -> /) gives the same data; every 2- and 3-entry input over overlapping dotted keys is rejected iff it defines a setting twice, in every insertion order; non-trivial = container with at least one leaf / any flattening or duplicate case",
		Assumptions: []string{
			"trees of depth<=2 over keys {a,b}, lists<=2; canonical form equates nil, absent, empty dict and empty list; numbers compared by value",
			"insertion order for duplicates is fixed through struct field order (map orders are explored by C09)",
		},
		Spaces: func(tier string) []*core.Space {
			var schemes [][]repKind
			for a := repKind(0); a < numRepKinds; a++ {
				for b := repKind(0); b < numRepKinds; b++ {
					schemes = append(schemes, []repKind{kMap, a, b})
				}
			}
			ts := unionTrees(cachedEnum(2, kA, 2), cachedEnum(1, kAB, 2))
			if tier == "thorough" {
				ts = cachedEnum(2, kAB, 2)
			}
			return []*core.Space{c05Reps(ts, schemes), c05Flatten(cachedEnum(2, kAB, 2)), c05Dups(), c05Mixed()}
		},
	})
}
