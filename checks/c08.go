package checks

import (
	"fmt"
	"sort"
	"strings"

	ucfg "github.com/elastic/go-ucfg"
	"github.com/elastic/go-ucfg/diff"
	"github.com/elastic/go-ucfg/parse"

	"verif/internal/core"
	"verif/internal/tree"
	vx "verif/internal/varexp"
)

// C08: reference resolution terminates; cycles are errors, everything else resolves.
// Every configuration over a few mutually referencing settings (+ a nested group) is
// read through every read entry point inside an isolated worker (a stack overflow or
// hang kills only the worker and is reported with the journalled case).

func c08Menu(names []string) []vx.Exp {
	R := func(n string) vx.Exp { return vx.Ref{Name: vx.Lit(n)} }
	var m []vx.Exp
	m = append(m, vx.Lit("L"))
	for _, x := range names {
		m = append(m, R(x))
	}
	for _, x := range names {
		m = append(m, vx.Cat{R(x), R(x)})
		m = append(m, vx.Cat{vx.Lit("pre-"), R(x), vx.Lit("-post")})
		m = append(m, vx.Op{Kind: ":", Name: vx.Lit(x), RHS: vx.Lit("dflt")})
		m = append(m, vx.Ref{Name: R(x)})
		m = append(m, vx.Op{Kind: ":+", Name: vx.Lit(x), RHS: vx.Lit("alt")})
		m = append(m, vx.Op{Kind: ":+", Name: vx.Lit(x), RHS: vx.Cat{vx.Lit("<"), R(x), vx.Lit(">")}})
		m = append(m, vx.Op{Kind: ":?", Name: vx.Lit(x), RHS: vx.Lit("msg")})
		for _, y := range names {
			if x != y {
				m = append(m, vx.Cat{R(x), R(y)})
			}
			m = append(m, vx.Op{Kind: ":", Name: vx.Lit(x), RHS: R(y)})
		}
	}
	return m
}

type c08Config struct {
	settings map[string]vx.Exp // a, b, (c), p.q, p.r
	names    []string
}

func (c c08Config) text() string {
	var s []string
	for _, n := range c.names {
		s = append(s, fmt.Sprintf("%s: %q", n, c.settings[n].Render()))
	}
	return strings.Join(s, ", ")
}

func (c c08Config) goValue() M {
	flat := map[string]interface{}{}
	for n, e := range c.settings {
		flat[n] = e.Render()
	}
	return nest(flat)
}

func (c c08Config) layer() vx.Layer {
	l := vx.Layer{}
	var group []string
	for n, e := range c.settings {
		if lit, ok := e.(vx.Lit); ok {
			l[n] = vx.Setting{Plain: string(lit)}
		} else {
			l[n] = vx.Setting{Expr: e}
		}
		if strings.HasPrefix(n, "p.") {
			group = append(group, n)
		}
	}
	sort.Strings(group)
	if len(group) > 0 {
		l["p"] = vx.Setting{Group: group}
	}
	return l
}

func reasonChainHas(err error, target error) bool {
	for i := 0; i < 10 && err != nil; i++ {
		if err == target {
			return true
		}
		ue, ok := err.(ucfg.Error)
		if !ok {
			return false
		}
		err = ue.Reason()
	}
	return false
}

var c08Resolvers = []struct {
	Name  string
	Known map[string]string
}{
	{"no resolver", nil},
	{"resolver knows a", map[string]string{"a": "RESa"}},
	{"resolver knows all", map[string]string{"a": "RESa", "b": "RESb", "c": "RESc", "p.q": "RESpq", "p.r": "RESpr", "p": "RESp", "L": "RESL", "dflt": "RESd"}},
}

func c08Space(name string, top []string, fullGroup bool) *core.Space {
	refNames := append(append([]string{}, top...), "p.q")
	menu := c08Menu(refNames)
	groupMenu := []vx.Exp{vx.Lit("L"), vx.Ref{Name: vx.Lit("a")}, vx.Ref{Name: vx.Lit("p.r")}, vx.Ref{Name: vx.Lit("p")}}
	groupMenuR := []vx.Exp{vx.Lit("L"), vx.Ref{Name: vx.Lit("b")}, vx.Ref{Name: vx.Lit("p.q")}, vx.Ref{Name: vx.Lit("p")}}
	if !fullGroup {
		groupMenu = groupMenu[:3]
		groupMenuR = groupMenuR[:3]
	}
	// additionally the top-level settings may reference the group itself
	menu = append(menu, vx.Ref{Name: vx.Lit("p")}, vx.Ref{Name: vx.Lit("p.r")})
	radices := []int{len(c08Resolvers)}
	for range top {
		radices = append(radices, len(menu))
	}
	radices = append(radices, len(groupMenu), len(groupMenuR))
	dec := func(i int) (c08Config, int) {
		d := mixedRadix(i, radices...)
		c := c08Config{settings: map[string]vx.Exp{}}
		for k, n := range top {
			c.settings[n] = menu[d[1+k]]
		}
		c.settings["p.q"] = groupMenu[d[1+len(top)]]
		c.settings["p.r"] = groupMenuR[d[2+len(top)]]
		c.names = append(append([]string{}, top...), "p.q", "p.r")
		return c, d[0]
	}
	return &core.Space{
		Name:        name,
		Size:        product(radices...),
		CaseTimeout: 20e9,
		Text: func(i int) string {
			c, r := dec(i)
			return fmt.Sprintf("{%s} with %s", c.text(), c08Resolvers[r].Name)
		},
		Exec: func(i int) core.Result {
			c, r := dec(i)
			return c08Exec(c, r)
		},
	}
}

func c08Exec(c c08Config, r int) core.Result {
	env := &vx.Env{Root: c.layer()}
	if c08Resolvers[r].Known != nil {
		env.Resolvers = []map[string]string{c08Resolvers[r].Known}
	}
	outcomes := map[string]vx.Outcome{}
	anyGroup, anyErr, anyUndef, anyAbsorbed, anyAbsorbedEmpty := false, false, false, false, false
	graphInteresting := false
	seenRefs := map[string]int{}
	for _, n := range c.names {
		o := vx.Eval(env, c.settings[n])
		outcomes[n] = o
		if o.Group || o.TouchedGroup {
			anyGroup = true
		}
		if o.Absorbed {
			anyAbsorbed = true
			if o.Kind == vx.Value && o.Str == "" {
				anyAbsorbedEmpty = true // (an alternate absorbed the cycle: the text is empty, which reads as null)
			}
		}
		switch o.Kind {
		case vx.Cyclic, vx.Missing, vx.UserErr:
			anyErr = true
		case vx.Undefined:
			anyUndef = true
		}
		if o.Kind == vx.Cyclic {
			graphInteresting = true
		}
		for _, ref := range vx.Refs(c.settings[n]) {
			seenRefs[ref]++
			if seenRefs[ref] > 1 {
				graphInteresting = true // repeated use / diamond
			}
		}
	}
	var res core.Result
	pi := core.Guard(func() {
		opts := []ucfg.Option{ucfg.PathSep("."), ucfg.VarExp}
		if known := c08Resolvers[r].Known; known != nil {
			opts = append(opts, ucfg.Resolve(func(name string) (string, parse.Config, error) {
				if v, ok := known[name]; ok {
					return v, parse.NoopConfig, nil
				}
				return "", parse.NoopConfig, ucfg.ErrMissing
			}))
		}
		cfg, err := ucfg.NewFrom(c.goValue(), opts...)
		if err != nil {
			res = core.Fail("build", "BUILD", err.Error())
			return
		}
		fail := func(entry, class, detail string) {
			res = core.Fail(entry, class+" "+entry, detail)
		}
		// --- String getter per setting
		for _, n := range c.names {
			o := outcomes[n]
			s, err := cfg.String(n, -1, opts...)
			switch {
			case o.Kind == vx.Undefined || o.Group || o.TouchedGroup:
			case o.Absorbed:
				// the value depends on where the absorbed cycle was entered; what remains
				// claimed: a setting the model resolves must not fail
				if o.Kind == vx.Value && o.Str != "" && err != nil {
					fail("String", "FALSE-ERROR(absorbed cycle)", fmt.Sprintf("String(%q): model resolves (a cycle is absorbed by a default/resolver), impl error %v", n, err))
					return
				}
			case o.Kind == vx.Value:
				if err != nil {
					fail("String", "FALSE-ERROR", fmt.Sprintf("String(%q): model value %q, impl error %v", n, o.Str, err))
					return
				}
				if s != o.Str {
					fail("String", "WRONG-VALUE", fmt.Sprintf("String(%q): model %q impl %q", n, o.Str, s))
					return
				}
			case o.Kind == vx.Cyclic:
				if err == nil {
					fail("String", "CYCLE-NOT-REPORTED", fmt.Sprintf("String(%q): model cyclic, impl returned %q", n, s))
					return
				}
				if !reasonChainHas(err, ucfg.ErrCyclicReference) {
					fail("String", "CYCLE-WRONG-REASON", fmt.Sprintf("String(%q): model cyclic, impl error %v", n, err))
					return
				}
			case o.Kind == vx.UserErr:
				if err == nil {
					fail("String", "USER-ERROR-NOT-REPORTED", fmt.Sprintf("String(%q): model fails with %q, impl returned %q", n, o.Str, s))
					return
				}
			case o.Kind == vx.Missing:
				if err == nil {
					fail("String", "MISSING-NOT-REPORTED", fmt.Sprintf("String(%q): model missing %s, impl returned %q", n, o.Str, s))
					return
				}
			}
			// CountField on the direct name (top-level settings): evaluates the chain
			if !strings.Contains(n, ".") && !o.Group && !o.TouchedGroup && !o.Absorbed && o.Kind != vx.Undefined {
				cnt, err := cfg.CountField(n, opts...)
				if o.Kind == vx.Value && (err != nil || cnt != 1) {
					fail("CountField", "FALSE-ERROR", fmt.Sprintf("CountField(%q)=(%d,%v), model value %q", n, cnt, err, o.Str))
					return
				}
				if o.Kind == vx.Cyclic && err == nil {
					fail("CountField", "CYCLE-NOT-REPORTED", fmt.Sprintf("CountField(%q)=%d, model cyclic", n, cnt))
					return
				}
			}
			// Has never needs to evaluate the setting itself
			if has, err := cfg.Has(n, -1, opts...); err != nil || !has {
				fail("Has", "HAS", fmt.Sprintf("Has(%q)=(%v,%v)", n, has, err))
				return
			}
			cfg.Has(n+".zz", -1, opts...) // through the value: must return
		}
		// --- Unpack into map and struct
		var m map[string]interface{}
		uerr := cfg.Unpack(&m, opts...)
		var st struct {
			A, B, C string
			P       struct{ Q, R string }
		}
		serr := cfg.Unpack(&st, opts...)
		if anyAbsorbed {
			if !anyErr && !anyUndef && !anyGroup && !anyAbsorbedEmpty && (uerr != nil || serr != nil) {
				fail("Unpack", "FALSE-ERROR(absorbed cycle)", fmt.Sprintf("model: every setting resolves (cycles absorbed by defaults/resolvers), impl errors: map %v struct %v", uerr, serr))
				return
			}
		} else if !anyUndef {
			switch {
			case anyErr:
				if uerr == nil {
					fail("Unpack->map", "ERROR-NOT-REPORTED", fmt.Sprintf("model: some setting is cyclic/missing, impl unpacked %v", tree.CanonGo(m)))
					return
				}
				if !anyGroup && serr == nil {
					fail("Unpack->struct", "ERROR-NOT-REPORTED", fmt.Sprintf("model: some setting is cyclic/missing, impl unpacked %+v", st))
					return
				}
			default:
				if uerr != nil {
					fail("Unpack->map", "FALSE-ERROR", fmt.Sprintf("model: every setting resolves, impl error %v", uerr))
					return
				}
				if !anyGroup {
					want := map[string]interface{}{}
					for _, n := range c.names {
						want[n] = outcomes[n].Str
					}
					if got, w := tree.CanonGo(m), tree.CanonGo(map[string]interface{}(nest(want))); got != w {
						fail("Unpack->map", "WRONG-VALUE", fmt.Sprintf("model %s impl %s", w, got))
						return
					}
					if serr != nil {
						fail("Unpack->struct", "FALSE-ERROR", fmt.Sprintf("model: every setting resolves, impl error %v", serr))
						return
					}
					gotS := map[string]string{"a": st.A, "b": st.B, "c": st.C, "p.q": st.P.Q, "p.r": st.P.R}
					for _, n := range c.names {
						if gotS[n] != outcomes[n].Str {
							fail("Unpack->struct", "WRONG-VALUE", fmt.Sprintf("field for %q: model %q impl %q", n, outcomes[n].Str, gotS[n]))
							return
						}
					}
				}
			}
		}
		// --- Child + getter
		if ch, err := cfg.Child("p", -1, opts...); err == nil {
			o := outcomes["p.q"]
			s, err := ch.String("q", -1, opts...)
			if o.Kind == vx.Value && !o.Group && !o.TouchedGroup && !o.Absorbed && (err != nil || s != o.Str) {
				fail("Child+String", "WRONG-VALUE", fmt.Sprintf("Child(p).String(q)=(%q,%v) model %q", s, err, o.Str))
				return
			}
			if o.Kind == vx.Cyclic && !o.TouchedGroup && !o.Absorbed && err == nil {
				fail("Child+String", "CYCLE-NOT-REPORTED", fmt.Sprintf("Child(p).String(q)=%q, model cyclic", s))
				return
			}
		} else {
			fail("Child+String", "CHILD", err.Error())
			return
		}
		// --- key flattening and diffing terminate; exact for configs without object references
		keys := cfg.FlattenedKeys(opts...)
		d := diff.CompareConfigs(cfg, cfg, opts...)
		if d.HasChanged() {
			fail("CompareConfigs", "DIFF-SELF", fmt.Sprintf("CompareConfigs(c,c) reports changes: %v", d))
			return
		}
		if !anyGroup && !anyUndef {
			want := append([]string{}, c.names...)
			sort.Strings(want)
			if fmt.Sprint(keys) != fmt.Sprint(want) {
				fail("FlattenedKeys", "WRONG-KEYS", fmt.Sprintf("model %v impl %v", want, keys))
				return
			}
		}
		res.Nontrivial = graphInteresting
		res.Skipped = anyUndef && !graphInteresting
		res.Outcome = fmt.Sprintf("err=%v group=%v", anyErr, anyGroup)
	})
	if pi != nil {
		return apiPanic("c08", pi)
	}
	return res
}

func init() {
	core.Register(&core.Check{
		ID:    "C08",
		Level: "exploration",
		Rule:  "every configuration over the settings {a,b[,c]} with values from a menu of reference shapes (${x}, ${x}${x}, ${x}${y}, pre-${x}-post, ${x:lit}, ${x:${y}}, ${x:+alt}, ${x:+<${x}>}, ${x:?msg}, ${${x}}, ${p}, ${p.q}, ${p.r}) plus a nested group p.{q,r} (literal, reference to a top-level setting, to the sibling, to the group itself), with no resolver / a resolver that knows one name / all names, is read through String, CountField, Has, Unpack into map and struct, Child+getter, FlattenedKeys and CompareConfigs inside an isolated worker; the reference evaluator decides per setting value / cyclic / missing / user error; a second space reads 676 configurations in which two settings refer to a list, an object, their members, each other, themselves through a path walk, or hold lists/objects of such references (diamonds) into map, struct{A,B interface{}}, struct{A,B []interface{}} and the two mixed structs, through FlattenedKeys (exact multiset of keys), CompareConfigs, CountField and indexed String, against a substitution model, and into a recursive struct type and a recursive map type (termination only: there only the configuration can end the recursion); a third space reads {a,b} (same menu over a,b,c) with an Env configuration that holds a and c (absent, literal, ${a}, ${c}, <${a}>, <${b}>, ${a:ed}, ${c:ed}) with and without a resolver: the same name in the two trees is two settings, so root a -> Env c -> Env a is no cycle; non-trivial = the reference graph has a cycle, a diamond or a repeated use",
		Assumptions: []string{
			"2 (quick) / 3 (thorough) mutually referencing top-level settings + the group; worker death (stack overflow, hang > 20 s) is a violation of the termination clause",
			"values that involve the text form of an object are executed for termination only",
		},
		Spaces: func(tier string) []*core.Space {
			if tier == "thorough" {
				return []*core.Space{c08Containers(), c08ChainsIntoCycles(), c08EnvSpace(), c08Space("settings-a-b-c+group", []string{"a", "b", "c"}, false), c08Space("settings-a-b+group(full)", []string{"a", "b"}, true)}
			}
			return []*core.Space{c08Containers(), c08ChainsIntoCycles(), c08EnvSpace(), c08Space("settings-a-b+group", []string{"a", "b"}, true)}
		},
	})
}
