package checks

import (
	"fmt"
	"math"
	"reflect"
	"regexp"
	"strings"
	"time"

	ucfg "github.com/elastic/go-ucfg"

	"verif/internal/core"
)

// C06: struct -> Config -> struct is the identity. Types are generated with
// reflect.StructOf from leaf kinds x wrappers x tags (nesting <= 2 or 3), values
// from per-kind boundary menus.

type c06Leaf struct {
	T    reflect.Type
	Vals []interface{}
}

func c06Leaves() []c06Leaf {
	re := func(s string) *regexp.Regexp { return regexp.MustCompile(s) }
	strs := []interface{}{"", "x", "$", "${a}", "a.b", "a,b", "{", "[1]", " ", "null", "true", "1", "$$", "${a:b}", "a}b", "0x10", "1e3", "é\n\t\"q\""}
	return []c06Leaf{
		{reflect.TypeOf(false), []interface{}{false, true}},
		{reflect.TypeOf(int8(0)), []interface{}{int8(0), int8(1), int8(-1), int8(math.MinInt8), int8(math.MaxInt8)}},
		{reflect.TypeOf(int16(0)), []interface{}{int16(0), int16(-1), int16(math.MinInt16), int16(math.MaxInt16)}},
		{reflect.TypeOf(int32(0)), []interface{}{int32(0), int32(1), int32(math.MinInt32), int32(math.MaxInt32)}},
		{reflect.TypeOf(int64(0)), []interface{}{int64(0), int64(1), int64(-1), int64(math.MinInt64), int64(math.MaxInt64), int64(math.MaxInt64 - 1), int64(1) << 53}},
		{reflect.TypeOf(int(0)), []interface{}{0, 1, -1, math.MinInt64, math.MaxInt64}},
		{reflect.TypeOf(uint8(0)), []interface{}{uint8(0), uint8(1), uint8(math.MaxUint8)}},
		{reflect.TypeOf(uint16(0)), []interface{}{uint16(0), uint16(math.MaxUint16)}},
		{reflect.TypeOf(uint32(0)), []interface{}{uint32(0), uint32(math.MaxUint32)}},
		{reflect.TypeOf(uint64(0)), []interface{}{uint64(0), uint64(1), uint64(math.MaxInt64), uint64(math.MaxInt64) + 1, uint64(math.MaxUint64)}},
		{reflect.TypeOf(uint(0)), []interface{}{uint(0), uint(7), uint(math.MaxUint64)}},
		{reflect.TypeOf(float32(0)), []interface{}{float32(0), float32(1.5), float32(-2.25), float32(math.MaxFloat32), float32(math.SmallestNonzeroFloat32), float32(0.1)}},
		{reflect.TypeOf(float64(0)), []interface{}{float64(0), 1.5, -2.25, math.MaxFloat64, math.SmallestNonzeroFloat64, 0.1, 1e21, float64(1 << 62), -1e-7}},
		{reflect.TypeOf(""), strs},
		{reflect.TypeOf(time.Duration(0)), []interface{}{time.Duration(0), time.Nanosecond, -time.Second, time.Duration(math.MaxInt64), time.Duration(math.MinInt64 + 1), 1500 * time.Millisecond, 30 * time.Millisecond, 90 * time.Minute}},
		{reflect.TypeOf((*regexp.Regexp)(nil)), []interface{}{re("a.*b"), re("^[0-9]+$"), re("x")}},
		{reflect.TypeOf(MyI8(0)), []interface{}{MyI8(0), MyI8(-128), MyI8(127)}},
		{reflect.TypeOf(MyStr("")), []interface{}{MyStr(""), MyStr("named")}},
		{reflect.TypeOf(MyI64(0)), []interface{}{MyI64(math.MaxInt64), MyI64(-5)}},
	}
}

type c06Wrapper int

const (
	wNone c06Wrapper = iota
	wPtr
	wSliceNil
	wSliceEmpty
	wSlice1
	wSlice2
	wArray2
	wMapNil
	wMapEmpty
	wMap1
	wMap2
	wSlicePtr
	wStruct
	wPtrStruct
	wStructInline
	wMapInline
	wPtrSliceNil // a non-nil pointer to a nil slice
	wPtrMapNil   // a non-nil pointer to a nil map
	numC06Wrappers
)

func (w c06Wrapper) String() string {
	return [...]string{"T", "*T", "[]T(nil)", "[]T{}", "[]T{v}", "[]T{v,zero}", "[2]T{v,zero}", "map[string]T(nil)", "map[string]T{}", "map[string]T{k:v}", "map[string]T{k:v,j:zero}", "[]*T{&v}", "struct{X T}", "*struct{X T}", "struct{X T} inline", "map[string]T inline", "&[]T(nil)", "&map[string]T(nil)"}[w]
}

func ptrTo(v reflect.Value) reflect.Value {
	p := reflect.New(v.Type())
	p.Elem().Set(v)
	return p
}

// wrap returns the wrapped type and value; inline reports that the field needs the ",inline" tag.
func (w c06Wrapper) wrap(v reflect.Value) (out reflect.Value, inline bool) {
	t := v.Type()
	switch w {
	case wNone:
		return v, false
	case wPtr:
		return ptrTo(v), false
	case wSliceNil:
		return reflect.Zero(reflect.SliceOf(t)), false
	case wSliceEmpty:
		return reflect.MakeSlice(reflect.SliceOf(t), 0, 0), false
	case wSlice1, wSlice2:
		n := 1
		if w == wSlice2 {
			n = 2
		}
		s := reflect.MakeSlice(reflect.SliceOf(t), n, n)
		s.Index(0).Set(v)
		if n == 2 {
			s.Index(1).Set(zeroLike(v))
		}
		return s, false
	case wArray2:
		a := reflect.New(reflect.ArrayOf(2, t)).Elem()
		a.Index(0).Set(v)
		a.Index(1).Set(zeroLike(v))
		return a, false
	case wMapNil:
		return reflect.Zero(reflect.MapOf(reflect.TypeOf(""), t)), false
	case wMapEmpty:
		return reflect.MakeMap(reflect.MapOf(reflect.TypeOf(""), t)), false
	case wMap1, wMap2, wMapInline:
		m := reflect.MakeMap(reflect.MapOf(reflect.TypeOf(""), t))
		m.SetMapIndex(reflect.ValueOf("k"), v)
		if w == wMap2 {
			m.SetMapIndex(reflect.ValueOf("j"), zeroLike(v))
		}
		return m, w == wMapInline
	case wPtrSliceNil:
		return ptrTo(reflect.Zero(reflect.SliceOf(t))), false
	case wPtrMapNil:
		return ptrTo(reflect.Zero(reflect.MapOf(reflect.TypeOf(""), t))), false
	case wSlicePtr:
		s := reflect.MakeSlice(reflect.SliceOf(reflect.PtrTo(t)), 1, 1)
		s.Index(0).Set(ptrTo(v))
		return s, false
	case wStruct, wPtrStruct, wStructInline:
		st := reflect.New(reflect.StructOf([]reflect.StructField{{Name: "X", Type: t}, {Name: "Y", Type: reflect.TypeOf("")}})).Elem()
		st.Field(0).Set(v)
		st.Field(1).SetString("sibling")
		if w == wPtrStruct {
			return ptrTo(st), false
		}
		return st, w == wStructInline
	}
	panic("wrap")
}

// zeroLike: a second element that is legal for the type (a nil *Regexp / nil pointer is
// outside the claim when stored as an element of a list or map).
func zeroLike(v reflect.Value) reflect.Value {
	if v.Type() == reflect.TypeOf((*regexp.Regexp)(nil)) {
		return reflect.ValueOf(regexp.MustCompile("z"))
	}
	if containsPtr(v.Type()) {
		return v // a zero value would hold nil pointers
	}
	return reflect.Zero(v.Type())
}

func hasUnsupportedArray(t reflect.Type) bool {
	switch t.Kind() {
	case reflect.Ptr, reflect.Map:
		if t.Elem().Kind() == reflect.Array {
			return true
		}
		return hasUnsupportedArray(t.Elem())
	case reflect.Slice, reflect.Array:
		return hasUnsupportedArray(t.Elem())
	case reflect.Struct:
		for i := 0; i < t.NumField(); i++ {
			if hasUnsupportedArray(t.Field(i).Type) {
				return true
			}
		}
	}
	return false
}

func containsPtr(t reflect.Type) bool {
	switch t.Kind() {
	case reflect.Ptr, reflect.Interface:
		return true
	case reflect.Slice, reflect.Array, reflect.Map:
		return containsPtr(t.Elem())
	case reflect.Struct:
		for i := 0; i < t.NumField(); i++ {
			if containsPtr(t.Field(i).Type) {
				return true
			}
		}
	}
	return false
}

func leafText(v interface{}) string {
	if r, ok := v.(*regexp.Regexp); ok {
		return "regexp(" + r.String() + ")"
	}
	return fmt.Sprintf("%#v", v)
}

type c06Tag int

const (
	tagNone c06Tag = iota
	tagRename
	tagDotted
	tagIgnore
	numC06Tags
)

func (t c06Tag) String() string {
	return [...]string{"no tag", `config:"x"`, `config:"p.q"`, `config:",ignore"`}[t]
}

// normalize a value for comparison: nil and empty collections are equal, regexps by text,
// pointers followed.
func c06Norm(v reflect.Value) interface{} {
	if !v.IsValid() {
		return nil
	}
	if v.Type() == reflect.TypeOf((*regexp.Regexp)(nil)) {
		if v.IsNil() {
			return "regexp:<nil>"
		}
		return "regexp:" + v.Interface().(*regexp.Regexp).String()
	}
	switch v.Kind() {
	case reflect.Ptr, reflect.Interface:
		if v.IsNil() {
			return nil
		}
		if k := v.Elem().Kind(); v.Kind() == reflect.Ptr && (k == reflect.Slice || k == reflect.Map) && v.Elem().Len() == 0 {
			// the pointer itself survives: a pointer to an empty (or nil) collection is not a nil pointer
			return "&empty"
		}
		return c06Norm(v.Elem())
	case reflect.Slice, reflect.Array:
		if v.Len() == 0 {
			return nil
		}
		out := make([]interface{}, v.Len())
		for i := range out {
			out[i] = c06Norm(v.Index(i))
		}
		return out
	case reflect.Map:
		if v.Len() == 0 {
			return nil
		}
		out := map[string]interface{}{}
		for _, k := range v.MapKeys() {
			out[k.String()] = c06Norm(v.MapIndex(k))
		}
		return out
	case reflect.Struct:
		out := map[string]interface{}{}
		for i := 0; i < v.NumField(); i++ {
			out["."+v.Type().Field(i).Name] = c06Norm(v.Field(i))
		}
		return out
	case reflect.Float32, reflect.Float64:
		return v.Float()
	case reflect.Int, reflect.Int8, reflect.Int16, reflect.Int32, reflect.Int64:
		return fmt.Sprintf("%s:%d", v.Type(), v.Int())
	case reflect.Uint, reflect.Uint8, reflect.Uint16, reflect.Uint32, reflect.Uint64:
		return fmt.Sprintf("%s:%d", v.Type(), v.Uint())
	}
	return v.Interface()
}

type c06Case struct {
	text string
	val  reflect.Value // value of the generated struct type
	opts []ucfg.Option
	// expected after the round trip (differs from val only for ignored fields)
	want reflect.Value
}

func c06MakeCase(leaf reflect.Value, ws []c06Wrapper, tag c06Tag) (c06Case, bool) {
	v := leaf
	inline := false
	for i, w := range ws {
		var in bool
		v, in = w.wrap(v)
		if in && i != len(ws)-1 {
			return c06Case{}, false // inline only applies to the field itself
		}
		inline = in
		// exclusions of the property: fixed-size arrays directly as map values; nil pointers in collections never occur
		if v.Kind() == reflect.Map && v.Type().Elem().Kind() == reflect.Array {
			return c06Case{}, false
		}
		// same limitation as the excluded one (no array target without an existing value):
		// a pointer to a fixed-size array, anywhere in the type
		if hasUnsupportedArray(v.Type()) {
			return c06Case{}, false
		}
	}
	tagText := ""
	var opts []ucfg.Option
	switch tag {
	case tagRename:
		tagText = `config:"x"`
	case tagDotted:
		tagText = `config:"p.q"`
		opts = []ucfg.Option{ucfg.PathSep(".")}
	case tagIgnore:
		tagText = `config:",ignore"`
	}
	if inline {
		if tag != tagNone {
			return c06Case{}, false
		}
		tagText = `config:",inline"`
	}
	fields := []reflect.StructField{
		{Name: "F", Type: v.Type(), Tag: reflect.StructTag(tagText)},
	}
	if !(inline && v.Kind() == reflect.Map) {
		// a sibling field (an inline map would also collect the sibling's setting)
		fields = append(fields, reflect.StructField{Name: "Other", Type: reflect.TypeOf(int(0))})
	}
	st := reflect.New(reflect.StructOf(fields)).Elem()
	st.Field(0).Set(v)
	if len(fields) > 1 {
		st.Field(1).SetInt(42)
	}
	want := reflect.New(st.Type()).Elem()
	want.Set(st)
	if tag == tagIgnore {
		want.Field(0).Set(reflect.Zero(v.Type()))
	}
	return c06Case{val: st, opts: opts, want: want}, true
}

func c06Space(name string, depth int, reduced bool) *core.Space {
	leaves := c06Leaves()
	type idx struct {
		leaf, val int
		ws        []c06Wrapper
		tag       c06Tag
	}
	var cases []idx
	var wsets [][]c06Wrapper
	for w := c06Wrapper(0); w < numC06Wrappers; w++ {
		wsets = append(wsets, []c06Wrapper{w})
	}
	if depth >= 2 {
		for a := c06Wrapper(1); a < numC06Wrappers; a++ {
			for b := c06Wrapper(1); b < numC06Wrappers; b++ {
				if a == wStructInline || a == wMapInline || a == wSliceNil || a == wSliceEmpty || a == wMapNil || a == wMapEmpty || a == wPtrSliceNil || a == wPtrMapNil {
					continue // inner wrapper must carry the value
				}
				wsets = append(wsets, []c06Wrapper{a, b})
			}
		}
	}
	if depth >= 3 {
		core3 := []c06Wrapper{wPtr, wSlice1, wArray2, wMap1, wSlicePtr, wStruct, wPtrStruct}
		for _, a := range core3 {
			for _, b := range core3 {
				for _, c := range append(append([]c06Wrapper{}, core3...), wStructInline, wMapInline) {
					wsets = append(wsets, []c06Wrapper{a, b, c})
				}
			}
		}
	}
	for li, l := range leaves {
		if reduced && li%3 != 0 {
			continue
		}
		for vi := range l.Vals {
			for _, ws := range wsets {
				for tg := c06Tag(0); tg < numC06Tags; tg++ {
					if len(ws) > 1 && tg == tagIgnore {
						continue
					}
					if _, ok := c06MakeCase(reflect.ValueOf(l.Vals[vi]), ws, tg); ok {
						cases = append(cases, idx{li, vi, ws, tg})
					}
				}
			}
		}
	}
	return &core.Space{
		Name: name,
		Size: len(cases),
		Text: func(i int) string {
			c := cases[i]
			return fmt.Sprintf("leaf %v = %s wrapped %v, %v", leaves[c.leaf].T, leafText(leaves[c.leaf].Vals[c.val]), c.ws, c.tag)
		},
		Exec: func(i int) core.Result {
			c := cases[i]
			cs, _ := c06MakeCase(reflect.ValueOf(leaves[c.leaf].Vals[c.val]), c.ws, c.tag)
			var res core.Result
			sig := fmt.Sprintf("%v in %v", leaves[c.leaf].T.Kind(), c.ws)
			pi := core.Guard(func() {
				cfg := ucfg.New()
				if err := cfg.Merge(cs.val.Interface(), cs.opts...); err != nil {
					res = core.Fail("roundtrip", "MERGE-REJECTED "+sig, fmt.Sprintf("Merge(%+v): %v", cs.val.Interface(), err))
					return
				}
				back := reflect.New(cs.val.Type())
				if err := cfg.Unpack(back.Interface(), cs.opts...); err != nil {
					res = core.Fail("roundtrip", "UNPACK-FAILED "+sig, fmt.Sprintf("value %+v: %v", cs.val.Interface(), firstLine(err.Error())))
					return
				}
				w, g := c06Norm(cs.want), c06Norm(back.Elem())
				if !reflect.DeepEqual(w, g) {
					res = core.Fail("roundtrip", "NOT-IDENTITY "+sig, fmt.Sprintf("original %+v came back as %+v (normalized %v vs %v)", cs.val.Interface(), back.Elem().Interface(), w, g))
					return
				}
				res.Nontrivial = true
				res.Outcome = fmt.Sprintf("%v/%d", leaves[c.leaf].T.Kind(), len(c.ws))
			})
			if pi != nil {
				return apiPanic("roundtrip", pi)
			}
			return res
		},
	}
}

// c06TagLayouts: several fields of one struct whose config tags overlap (a dotted name reaching into the
// object or list another field provides), in every declaration order.
func c06TagLayouts() *core.Space {
	type inner struct {
		D int
		S string
	}
	type xStruct struct {
		C inner
		F int
	}
	type hStruct struct{ H int }
	type spec struct {
		tag string
		val interface{}
	}
	menu := []spec{
		{"x", xStruct{C: inner{D: 2, S: "a$b.c,{d}"}, F: 3}},
		{"x.c.e", 11},
		{"x.g", 12},
		{"x.c", hStruct{H: 13}},
		{"x.c.k.z", 14},
		{"paths", []string{"/a", "/b"}},
		{"paths.depth", 15},
		{"paths.glob", "*.{log,txt}"},
		{"x.l", []int{16, 17}},
		{"y", uint64(1<<63 + 5)},
		{"x.c.m", map[string]int{"k": 18}},
		{"arr", [2]inner{{D: 19}, {S: "t"}}},
		{"arr.1.d", 20},
		// lists without entries next to dotted siblings below their name
		{"paths", []string{}},
		{"x.l", []inner(nil)},
	}
	// settings written by a spec (to exclude layouts defining one setting twice)
	defines := func(sp spec) []string {
		switch sp.tag {
		case "x":
			return []string{"x.c.d", "x.c.s", "x.f"}
		case "x.c":
			return []string{"x.c.h"}
		case "arr":
			return []string{"arr.0.d", "arr.0.s", "arr.1.d", "arr.1.s"}
		}
		return []string{sp.tag}
	}
	var layouts [][]int
	var rec func(cur []int)
	rec = func(cur []int) {
		if len(cur) >= 2 {
			layouts = append(layouts, append([]int{}, cur...))
		}
		if len(cur) == 3 {
			return
		}
	next:
		for i := range menu {
			seen := map[string]bool{}
			for _, j := range cur {
				if j == i {
					continue next
				}
				for _, d := range defines(menu[j]) {
					seen[d] = true
				}
			}
			for _, d := range defines(menu[i]) {
				if seen[d] {
					continue next
				}
			}
			rec(append(cur, i))
		}
	}
	rec(nil)
	build := func(l []int) reflect.Value {
		var fields []reflect.StructField
		for k, i := range l {
			fields = append(fields, reflect.StructField{Name: fmt.Sprintf("F%d", k), Type: reflect.TypeOf(menu[i].val), Tag: reflect.StructTag(fmt.Sprintf(`config:"%s"`, menu[i].tag))})
		}
		st := reflect.New(reflect.StructOf(fields)).Elem()
		for k, i := range l {
			st.Field(k).Set(reflect.ValueOf(menu[i].val))
		}
		return st
	}
	text := func(l []int) string {
		s := ""
		for _, i := range l {
			s += fmt.Sprintf(" %T `config:%q`;", menu[i].val, menu[i].tag)
		}
		return "struct {" + s + " }"
	}
	return &core.Space{
		Name: "overlapping-tag-layouts",
		Size: len(layouts),
		Text: func(i int) string { return text(layouts[i]) + " with PathSep(\".\")" },
		Exec: func(i int) core.Result {
			l := layouts[i]
			var res core.Result
			sig := "layout"
			for _, j := range l {
				sig += " " + menu[j].tag
			}
			pi := core.Guard(func() {
				val := build(l)
				// the same struct type goes round under changing path options: dotted tags are
				// plain names without a separator, paths with one, names again, paths under other
				// index options - every trip is the identity
				trips := []struct {
					name string
					opts []ucfg.Option
				}{
					{"no separator", nil},
					{"PathSep(\".\")", []ucfg.Option{ucfg.PathSep(".")}},
					{"no separator again", nil},
					{"PathSep(\".\") + MaxIdx(0) + EscapePath", []ucfg.Option{ucfg.PathSep("."), ucfg.MaxIdx(0), ucfg.EscapePath()}},
					{"PathSep(\".\") again", []ucfg.Option{ucfg.PathSep(".")}},
				}
				for _, trip := range trips {
					if strings.Contains(trip.name, "MaxIdx(0)") && strings.Contains(sig, "arr.1.d") {
						continue // (arr.1.d would be a name under MaxIdx(0): another layout of settings)
					}
					cfg := ucfg.New()
					if err := cfg.Merge(val.Interface(), trip.opts...); err != nil {
						res = core.Fail("layouts", "MERGE-REJECTED "+sig, fmt.Sprintf("%s: Merge(%+v): %v", trip.name, val.Interface(), err))
						return
					}
					back := reflect.New(val.Type())
					if err := cfg.Unpack(back.Interface(), trip.opts...); err != nil {
						res = core.Fail("layouts", "UNPACK-FAILED "+sig, fmt.Sprintf("%s: value %+v: %v", trip.name, val.Interface(), firstLine(err.Error())))
						return
					}
					w, g := c06Norm(val), c06Norm(back.Elem())
					if !reflect.DeepEqual(w, g) {
						res = core.Fail("layouts", "NOT-IDENTITY "+sig, fmt.Sprintf("%s: original %+v came back as %+v", trip.name, val.Interface(), back.Elem().Interface()))
						return
					}
				}
				res.Nontrivial = true
				res.Outcome = fmt.Sprintf("fields=%d", len(l))
			})
			if pi != nil {
				return apiPanic("layouts", pi)
			}
			return res
		},
	}
}

func init() {
	core.Register(&core.Check{
		ID:    "C06",
		Level: "exploration",
		Rule:  "struct types built with reflect.StructOf from 19 leaf kinds (bool, all int/uint widths, floats, string, time.Duration, *regexp.Regexp, named int/string types) x 16 wrappers (pointer, nil/empty/1/2-element slices, arrays, nil/empty/1/2-entry maps, slices of pointers, nested structs by value and pointer, inline struct, inline map) nested up to the stated depth x 4 tag forms (none, rename, dotted name with PathSep, ignore) with values from per-kind boundary menus (zero, +-1, min, max, MaxInt64+1, MaxFloat, subnormals, strings containing $ . , { } [ ] quotes and keywords, extreme durations) are merged into an empty config and unpacked into a zero value of the same type; plus every ordered layout of 2 or 3 fields from a menu of 13 overlapping config tags (an object x next to x.c.e, x.g, x.c, x.c.k.z, x.l, x.c.m; a list paths next to paths.depth, paths.glob; an array arr next to arr.1.d) that defines no setting twice; non-trivial = every generated case (cases are distinct type/value combinations); plus one struct type round-tripped under 7 sequences of StructTag option values in one process",
		Assumptions: []string{
			"comparison equates nil and empty collections, compares regexps by text and follows pointers; ignored fields must come back zero",
			"not generated, as excluded by the property: nil pointers as elements of lists/maps, arrays directly as map values; an inline map next to a named sibling field",
			"nesting depth <=2 (quick) / <=3 on a reduced wrapper set (thorough)",
		},
		Spaces: func(tier string) []*core.Space {
			if tier == "thorough" {
				return []*core.Space{c06StructTagSequences(), c06TagLayouts(), c06Space("depth<=2", 2, false), c06Space("depth3-reduced", 3, true)}
			}
			return []*core.Space{c06StructTagSequences(), c06TagLayouts(), c06Space("depth<=2", 2, false)}
		},
	})
}

func firstLine(s string) string {
	for i, c := range s {
		if c == '\n' {
			return s[:i]
		}
	}
	return s
}

// the StructTag option: the same struct types round-tripped under different tag names in one process (names,
// inline and ignore flags are taken from the tag named by the option of *this* call)
type c06TagSub struct {
	P int    `config:"p" alt:"q"`
	S string `config:"s,ignore" alt:"s"`
}

type c06TagT struct {
	Host   string            `config:"host" alt:"server"`
	Port   int               `config:"port" alt:"host"`
	Labels map[string]int    `config:"labels" alt:"tags"`
	Hidden string            `config:",ignore" alt:"hidden"`
	Shown  string            `config:"shown" alt:",ignore"`
	Sub    c06TagSub         `config:"sub" alt:",inline"`
	Ptr    *c06TagSub        `config:"ptr" alt:"ptr"`
	List   []c06TagSub       `config:"list" alt:"items"`
}

func c06StructTagSequences() *core.Space {
	seqs := [][]string{{"config"}, {"alt"}, {"config", "alt"}, {"alt", "config"}, {"config", "alt", "config"}, {"alt", "config", "alt"}, {"", "alt", ""}}
	return &core.Space{
		Name: "struct-tag-option-sequences",
		Size: len(seqs),
		Text: func(i int) string {
			return fmt.Sprintf("one struct type (names, inline and ignore flags differ between the tags) round-tripped under StructTag %q in turn", seqs[i])
		},
		Exec: func(i int) core.Result {
			var res core.Result
			pi := core.Guard(func() {
				for step, tag := range seqs[i] {
					in := c06TagT{Host: "h", Port: 80, Labels: map[string]int{"x": 1}, Hidden: "hid", Shown: "sh",
						Sub: c06TagSub{P: 3, S: "s1"}, Ptr: &c06TagSub{P: 4, S: "s2"}, List: []c06TagSub{{5, "s3"}}}
					var opts []ucfg.Option
					if tag != "" {
						opts = append(opts, ucfg.StructTag(tag))
					}
					c := ucfg.New()
					if err := c.Merge(in, opts...); err != nil {
						res = core.Fail("roundtrip", "MERGE-FAILS under a StructTag sequence", fmt.Sprintf("step %d (%q): %v", step, tag, firstLine(err.Error())))
						return
					}
					var out c06TagT
					if err := c.Unpack(&out, opts...); err != nil {
						res = core.Fail("roundtrip", "UNPACK-FAILS under a StructTag sequence", fmt.Sprintf("step %d (%q): %v", step, tag, firstLine(err.Error())))
						return
					}
					// what the tag of this call ignores does not travel
					want := in
					wp := *in.Ptr
					want.Ptr = &wp
					want.List = []c06TagSub{in.List[0]}
					if tag == "alt" {
						want.Shown = ""
					} else {
						want.Hidden = ""
						want.Sub.S, want.Ptr.S, want.List[0].S = "", "", ""
					}
					got := fmt.Sprintf("%+v ptr=%+v", out, out.Ptr)
					exp := fmt.Sprintf("%+v ptr=%+v", want, want.Ptr)
					strip := func(s string) string { // pointer addresses
						return regexpPtr.ReplaceAllString(s, "Ptr:<p>")
					}
					if strip(got) != strip(exp) {
						res = core.Fail("roundtrip", "DIFFERS under a StructTag sequence", fmt.Sprintf("step %d (%q): got %s, want %s", step, tag, strip(got), strip(exp)))
						return
					}
				}
				res = core.Result{Nontrivial: len(seqs[i]) > 1, Outcome: "ok"}
			})
			if pi != nil {
				return apiPanic("c06", pi)
			}
			return res
		},
	}
}

var regexpPtr = regexp.MustCompile(`Ptr:0x[0-9a-f]+`)
