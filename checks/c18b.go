package checks

import (
	"encoding/json"
	"fmt"
	"os"
	"path/filepath"
	"strings"

	ucfg "github.com/elastic/go-ucfg"
	"github.com/elastic/go-ucfg/parse"

	"verif/internal/core"
)

// C18, settings of a file whose value only becomes a list or an object when it is read (a
// spliced string, a resolver's answer): an error about such a setting mentions the file like
// an error about a setting written as a list or object, with the text of the in-memory loader
// otherwise.
func c18EvaluatedInFiles() *core.Space {
	type target3 struct {
		Hosts [3]string `config:"hosts"`
	}
	type limits struct {
		Max int `config:"max"`
		Min int `config:"min" validate:"required"`
	}
	type targetL struct {
		Limits limits `config:"limits"`
	}
	type targetN struct {
		Hosts int `config:"hosts"`
	}
	resolver := ucfg.Resolve(func(name string) (string, parse.Config, error) {
		switch name {
		case "LIMITS":
			return "{max: 5}", parse.DefaultConfig, nil
		case "HOSTS":
			return "h1,h2", parse.DefaultConfig, nil
		}
		return "", parse.DefaultConfig, ucfg.ErrMissing
	})
	cases := []struct {
		name string
		doc  M
		mk   func() interface{}
		path string
	}{
		{"spliced string that reads as a list of 2, target array of 3", M{"a": "x", "b": "y", "hosts": "${a},${b}"}, func() interface{} { return &target3{} }, "hosts"},
		{"resolver's answer that reads as a list of 2, target array of 3", M{"hosts": "${HOSTS}"}, func() interface{} { return &target3{} }, "hosts"},
		{"resolver's answer that reads as an object, required member missing", M{"limits": "${LIMITS}"}, func() interface{} { return &targetL{} }, "limits.min"},
		{"spliced string that reads as a list, target is a number", M{"a": "x", "hosts": "${a},${a}"}, func() interface{} { return &targetN{} }, "hosts"},
		{"(control) the same list written in place", M{"hosts": L{"x", "y"}}, func() interface{} { return &target3{} }, "hosts"},
	}
	radices := []int{len(cases), len(c18FrontEnds)}
	return &core.Space{
		Name: "values-evaluated-at-read-time-in-files",
		Size: product(radices...),
		Text: func(i int) string {
			d := mixedRadix(i, radices...)
			b, _ := json.Marshal(cases[d[0]].doc)
			return fmt.Sprintf("%s: %s loaded by %s.NewConfigWithFile with VarExp", cases[d[0]].name, b, c18FrontEnds[d[1]].Name)
		},
		Exec: func(i int) core.Result {
			d := mixedRadix(i, radices...)
			c, fe := cases[d[0]], c18FrontEnds[d[1]]
			var res core.Result
			pi := core.Guard(func() {
				if c18Tmp == "" {
					c18Tmp, _ = os.MkdirTemp(core.RunDir(), "c18-")
				}
				b, _ := json.Marshal(c.doc)
				fname := filepath.Join(c18Tmp, "evaluated."+fe.Name)
				os.WriteFile(fname, b, 0644)
				opts := []ucfg.Option{ucfg.PathSep("."), ucfg.VarExp, resolver}
				fcfg, err := fe.WithFile(fname, opts...)
				if err != nil {
					res = core.Fail("evaluated", "FILE-LOAD-FAILED "+fe.Name, err.Error())
					return
				}
				mcfg, err := fe.New(b, opts...)
				if err != nil {
					res = core.Fail("evaluated", "LOAD-FAILED "+fe.Name, err.Error())
					return
				}
				ferr, merr := fcfg.Unpack(c.mk(), opts...), mcfg.Unpack(c.mk(), opts...)
				if ferr == nil || merr == nil {
					res = core.Fail("evaluated", "FAULT-ACCEPTED "+fe.Name, fmt.Sprintf("file: %v memory: %v", ferr, merr))
					return
				}
				fmsg, mmsg := firstLine(ferr.Error()), firstLine(merr.Error())
				if !strings.Contains(fmsg, "'"+c.path+"'") {
					res = core.Fail("evaluated", "PATH-MISSING "+fe.Name, fmt.Sprintf("expected the message to name '%s': %s", c.path, fmsg))
					return
				}
				if !strings.Contains(fmsg, "source:'"+fname+"'") {
					res = core.Fail("evaluated", "SOURCE-NOT-REPORTED-FOR-EVALUATED-VALUE "+fe.Name, fmt.Sprintf("%s: %s", c.name, fmsg))
					return
				}
				if stripped := strings.Replace(fmsg, " (source:'"+fname+"')", "", 1); stripped != mmsg {
					res = core.Fail("evaluated", "FILE-ERROR-DIFFERS "+fe.Name, fmt.Sprintf("memory: %s | file: %s", mmsg, fmsg))
					return
				}
				res.Nontrivial = true
				res.Outcome = fe.Name
			})
			if pi != nil {
				return apiPanic("c18", pi)
			}
			return res
		},
	}
}
