package checks

import (
	"fmt"
	"sync"

	ucfg "github.com/elastic/go-ucfg"

	"verif/internal/core"
	"verif/internal/tree"
)

// C01: Merge follows the selected policy. Every (policy, A, B) over bounded
// labelled trees is merged by the implementation and by the model
// (tree.Merge, a transcription of the statement); the canonical generic views
// must be equal.

var treeCache sync.Map

func cachedEnum(d int, keys []string, maxL int) []*tree.Node {
	k := fmt.Sprint(d, keys, maxL)
	if v, ok := treeCache.Load(k); ok {
		return v.([]*tree.Node)
	}
	v := tree.Enum(d, keys, maxL)
	treeCache.Store(k, v)
	return v
}

var kA = []string{"a"}
var kAB = []string{"a", "b"}

func unionTrees(sets ...[]*tree.Node) []*tree.Node {
	seen := map[string]bool{}
	var out []*tree.Node
	for _, s := range sets {
		for _, n := range s {
			t := n.String()
			if !seen[t] {
				seen[t] = true
				out = append(out, n)
			}
		}
	}
	return out
}

// spine trees: every container has exactly one container child.
func spines(depth int) []*tree.Node {
	term := []*tree.Node{tree.LeafN("L"), tree.NilN(), tree.Dict(), tree.Dict("a", tree.LeafN("L")), tree.List(), tree.List(tree.LeafN("L"))}
	cur := term
	for d := 0; d < depth; d++ {
		var nx []*tree.Node
		for _, c := range cur {
			nx = append(nx,
				tree.Dict("a", c),
				tree.Dict("a", c, "b", tree.LeafN("L")),
				tree.List(c),
				tree.List(tree.LeafN("L"), c),
				tree.List(c, tree.LeafN("L")),
			)
		}
		cur = nx
	}
	return cur
}

// mixed: nodes that carry a dict part and a list part (key "0", "1" next to "a").
func mixedTrees(rich bool) []*tree.Node {
	sub := []*tree.Node{tree.NilN(), tree.LeafN("L"), tree.Dict("a", tree.LeafN("L")), tree.List(tree.LeafN("L"))}
	if rich {
		sub = cachedEnum(1, kA, 1)
	}
	var lists [][]*tree.Node
	lists = append(lists, nil)
	for _, x := range sub {
		lists = append(lists, []*tree.Node{x})
	}
	for _, x := range sub {
		for _, y := range sub {
			lists = append(lists, []*tree.Node{x, y})
		}
	}
	var out []*tree.Node
	for di := -1; di < len(sub); di++ {
		for _, l := range lists {
			n := &tree.Node{K: tree.Cont}
			if di >= 0 {
				n.D = map[string]*tree.Node{"a": sub[di]}
			}
			if len(l) > 0 {
				n.A = l
				n.HasA = true
			}
			if di < 0 && len(l) == 0 {
				continue
			}
			out = append(out, n)
		}
	}
	return out
}

type mergeRep int

const (
	repMap mergeRep = iota
	repStruct
	repConfig
)

func (r mergeRep) String() string { return [...]string{"map", "struct", "config"}[r] }

// sourceRep renders B (wrapped under "v") in the requested Go representation.
func sourceRep(rep mergeRep, b *tree.Node) (interface{}, error) {
	switch rep {
	case repStruct:
		return structRep(wrapV(b)), nil
	case repConfig:
		if b.K == tree.Cont {
			cb, err := ucfg.NewFrom(b.ToGo())
			if err != nil {
				return nil, err
			}
			return map[string]interface{}{"v": cb}, nil
		}
		return ucfg.NewFrom(wrapV(b).ToGo())
	}
	return wrapV(b).ToGo(), nil
}

// implMerge merges B into A (both wrapped under "v") and returns the canonical result.
func implMerge(p tree.Policy, a, b *tree.Node, rep mergeRep) (canon string, err error, pi *core.PanicInfo) {
	pi = core.Guard(func() {
		var ca *ucfg.Config
		ca, err = ucfg.NewFrom(wrapV(a).ToGo())
		if err != nil {
			err = fmt.Errorf("NewFrom(A): %v", err)
			return
		}
		var src interface{}
		src, err = sourceRep(rep, b)
		if err != nil {
			err = fmt.Errorf("building B: %v", err)
			return
		}
		if err = ca.Merge(src, policyOpt[p]...); err != nil {
			err = fmt.Errorf("Merge: %v", err)
			return
		}
		canon, err = canonOfConfig(ca)
	})
	return
}

func kindOf(n *tree.Node) string {
	switch {
	case n == nil:
		return "absent"
	case n.K == tree.Nil:
		return "nil"
	case n.K == tree.Leaf:
		return "leaf"
	case n.HasA && len(n.D) > 0:
		return "mixed"
	case n.HasA && len(n.A) == 0:
		return "emptylist"
	case n.HasA:
		return "list"
	case len(n.D) == 0:
		return "emptydict"
	}
	return "dict"
}

func lenRel(a, b *tree.Node) string {
	switch {
	case len(a.A) < len(b.A):
		return "lenA<lenB"
	case len(a.A) > len(b.A):
		return "lenA>lenB"
	}
	return "lenA=lenB"
}

func c01Pairs(name string, ts []*tree.Node, reps []mergeRep, direct bool) *core.Space {
	n := len(ts)
	np := len(allPolicies)
	nr := len(reps)
	dec := func(i int) (tree.Policy, *tree.Node, *tree.Node, mergeRep) {
		d := mixedRadix(i, n, n, np, nr)
		return allPolicies[d[2]], tree.Label(ts[d[0]], "A"), tree.Label(ts[d[1]], "B"), reps[d[3]]
	}
	return &core.Space{
		Name: name,
		Size: product(n, n, np, nr),
		Text: func(i int) string {
			p, a, b, r := dec(i)
			return fmt.Sprintf("policy=%s A=%s B=%s source=%s", p, a, b, r)
		},
		Exec: func(i int) core.Result {
			p, a, b, r := dec(i)
			want := tree.Merge(p, wrapV(a), wrapV(b)).Canon()
			got, err, pi := implMerge(p, a, b, r)
			res := core.Result{Nontrivial: overlap(a, b), Outcome: kindOf(a) + "/" + kindOf(b) + "/" + p.String()}
			sigBase := fmt.Sprintf("%s %s<-%s %s src=%s", p, kindOf(a), kindOf(b), lenRel(a, b), r)
			if pi != nil {
				return apiPanic("pairs", pi)
			}
			if err != nil {
				return core.Fail("pairs", "ERROR "+sigBase, "unexpected error: "+err.Error())
			}
			if got != want {
				return core.Fail("pairs", "MISMATCH "+sigBase, fmt.Sprintf("model=%s impl=%s", want, got))
			}
			if direct && a.K == tree.Cont && b.K == tree.Cont && r == repMap {
				if v := c01Direct(p, a, b); v != nil {
					return core.Result{Viol: v, Nontrivial: true}
				}
			}
			return res
		},
	}
}

// c01Direct repeats the merge without the {"v":..} wrapper and observes through
// the top-level Unpack when the result is purely a dict or purely a list.
func c01Direct(p tree.Policy, a, b *tree.Node) *core.Violation {
	want := tree.Merge(p, a, b)
	var got string
	var err error
	pi := core.Guard(func() {
		var ca *ucfg.Config
		if ca, err = ucfg.NewFrom(a.ToGo()); err != nil {
			return
		}
		if err = ca.Merge(b.ToGo(), policyOpt[p]...); err != nil {
			return
		}
		switch {
		case want.HasA && len(want.D) == 0:
			var l []interface{}
			if err = ca.Unpack(&l); err == nil {
				if len(l) == 0 && len(want.A) == 0 {
					got = want.Canon() // empty list at top level: nothing to observe
				} else {
					got = tree.CanonGo(l)
				}
			}
		case !want.HasA:
			var m map[string]interface{}
			if err = ca.Unpack(&m); err == nil {
				got = tree.CanonGo(m)
			}
		default:
			got = want.Canon()
		}
	})
	sig := fmt.Sprintf("%s %s<-%s %s direct", p, kindOf(a), kindOf(b), lenRel(a, b))
	if pi != nil {
		return &core.Violation{Sub: "direct", Sig: "PANIC@" + pi.Where, Detail: pi.Val}
	}
	if err != nil {
		return &core.Violation{Sub: "direct", Sig: "ERROR " + sig, Detail: err.Error()}
	}
	if got != want.Canon() {
		return &core.Violation{Sub: "direct", Sig: "MISMATCH " + sig, Detail: fmt.Sprintf("model=%s impl=%s", want.Canon(), got)}
	}
	return nil
}

// chains A<-B<-C with a policy per merge.
func c01Chains(ts []*tree.Node) *core.Space {
	n := len(ts)
	np := len(allPolicies)
	dec := func(i int) (p1, p2 tree.Policy, a, b, c *tree.Node) {
		d := mixedRadix(i, n, n, n, np, np)
		return allPolicies[d[3]], allPolicies[d[4]], tree.Label(ts[d[0]], "A"), tree.Label(ts[d[1]], "B"), tree.Label(ts[d[2]], "C")
	}
	return &core.Space{
		Name: "chains",
		Size: product(n, n, n, np, np),
		Text: func(i int) string {
			p1, p2, a, b, c := dec(i)
			return fmt.Sprintf("A=%s <-%s- B=%s <-%s- C=%s", a, p1, b, p2, c)
		},
		Exec: func(i int) core.Result {
			p1, p2, a, b, c := dec(i)
			want := tree.Merge(p2, tree.Merge(p1, wrapV(a), wrapV(b)), wrapV(c)).Canon()
			var got string
			var err error
			pi := core.Guard(func() {
				var ca *ucfg.Config
				if ca, err = ucfg.NewFrom(wrapV(a).ToGo()); err != nil {
					return
				}
				if err = ca.Merge(wrapV(b).ToGo(), policyOpt[p1]...); err != nil {
					return
				}
				if err = ca.Merge(wrapV(c).ToGo(), policyOpt[p2]...); err != nil {
					return
				}
				got, err = canonOfConfig(ca)
			})
			if pi != nil {
				return apiPanic("chains", pi)
			}
			sig := fmt.Sprintf("chain %s,%s %s<-%s<-%s", p1, p2, kindOf(a), kindOf(b), kindOf(c))
			if err != nil {
				return core.Fail("chains", "ERROR "+sig, err.Error())
			}
			if got != want {
				return core.Fail("chains", "MISMATCH "+sig, fmt.Sprintf("model=%s impl=%s", want, got))
			}
			return core.Result{Nontrivial: overlap(a, b) || overlap(b, c) || overlap(a, c), Outcome: "chain/" + p1.String() + "/" + p2.String()}
		},
	}
}

// reused *Config source: A<-B (config object), A<-C, then the same B object must still
// merge like the original B (into A again and into an empty config).
func c01Reuse(ts []*tree.Node) *core.Space {
	var cs []*tree.Node
	for _, t := range ts {
		if t.K == tree.Cont {
			cs = append(cs, t)
		}
	}
	n := len(cs)
	np := len(allPolicies)
	dec := func(i int) (p1, p2 tree.Policy, a, b, c *tree.Node) {
		d := mixedRadix(i, n, n, n, np, np)
		return allPolicies[d[3]], allPolicies[d[4]], tree.Label(cs[d[0]], "A"), tree.Label(cs[d[1]], "B"), tree.Label(cs[d[2]], "C")
	}
	return &core.Space{
		Name: "reused-config-source",
		Size: product(n, n, n, np, np),
		Text: func(i int) string {
			p1, p2, a, b, c := dec(i)
			return fmt.Sprintf("cb:=NewFrom(B=%s); A=%s <-%s- cb; A <-%s- C=%s; A <-%s- cb; E={} <-%s- cb", b, a, p1, p2, c, p1, p1)
		},
		Exec: func(i int) core.Result {
			p1, p2, a, b, c := dec(i)
			m1 := tree.Merge(p1, wrapV(a), wrapV(b))
			m2 := tree.Merge(p2, m1, wrapV(c))
			wantA := tree.Merge(p1, m2, wrapV(b))
			wantE := tree.Merge(p1, tree.New(), wrapV(b))
			var gotA, gotE string
			var err error
			pi := core.Guard(func() {
				var ca, cb *ucfg.Config
				if ca, err = ucfg.NewFrom(wrapV(a).ToGo()); err != nil {
					return
				}
				if cb, err = ucfg.NewFrom(wrapV(b).ToGo()); err != nil {
					return
				}
				if err = ca.Merge(cb, policyOpt[p1]...); err != nil {
					return
				}
				if err = ca.Merge(wrapV(c).ToGo(), policyOpt[p2]...); err != nil {
					return
				}
				if err = ca.Merge(cb, policyOpt[p1]...); err != nil {
					return
				}
				e := ucfg.New()
				if err = e.Merge(cb, policyOpt[p1]...); err != nil {
					return
				}
				if gotA, err = canonOfConfig(ca); err != nil {
					return
				}
				gotE, err = canonOfConfig(e)
			})
			if pi != nil {
				return apiPanic("reuse", pi)
			}
			sig := fmt.Sprintf("reuse %s,%s %s<-%s<-%s", p1, p2, kindOf(a), kindOf(b), kindOf(c))
			if err != nil {
				return core.Fail("reuse", "ERROR "+sig, err.Error())
			}
			if w := wantA.Canon(); gotA != w {
				return core.Fail("reuse", "MISMATCH "+sig, fmt.Sprintf("A after the chain: model=%s impl=%s", w, gotA))
			}
			if w := wantE.Canon(); gotE != w {
				return core.Fail("reuse", "MISMATCH source-changed "+sig, fmt.Sprintf("empty<-cb after the chain: model=%s impl=%s", w, gotE))
			}
			return core.Result{Nontrivial: overlap(a, b) || overlap(b, c), Outcome: "reuse/" + p1.String() + "/" + p2.String()}
		},
	}
}

// identities: merging the empty config, merging a config object into itself.
func c01Identities(ts []*tree.Node) *core.Space {
	n := len(ts)
	np := len(allPolicies)
	return &core.Space{
		Name: "identities",
		Size: product(n, np),
		Text: func(i int) string {
			d := mixedRadix(i, n, np)
			return fmt.Sprintf("policy=%s A=%s (A<-empty, empty<-A, A<-A same object, lengths)", allPolicies[d[1]], tree.Label(ts[d[0]], "A"))
		},
		Exec: func(i int) core.Result {
			d := mixedRadix(i, n, np)
			p := allPolicies[d[1]]
			a := tree.Label(ts[d[0]], "A")
			wa := wrapV(a)
			var fail *core.Violation
			pi := core.Guard(func() {
				mk := func() *ucfg.Config {
					c, err := ucfg.NewFrom(wa.ToGo())
					if err != nil {
						panic("NewFrom: " + err.Error())
					}
					return c
				}
				chk := func(what string, c *ucfg.Config, err error, want string) {
					if fail != nil {
						return
					}
					if err != nil {
						fail = &core.Violation{Sub: "identities", Sig: "ERROR " + what + " " + p.String(), Detail: err.Error()}
						return
					}
					got, err := canonOfConfig(c)
					if err != nil {
						fail = &core.Violation{Sub: "identities", Sig: "ERROR " + what + " " + p.String(), Detail: err.Error()}
						return
					}
					if got != want {
						fail = &core.Violation{Sub: "identities", Sig: "MISMATCH " + what + " " + p.String() + " " + kindOf(a), Detail: fmt.Sprintf("want=%s got=%s", want, got)}
					}
				}
				// A <- empty (three spellings of empty)
				for _, e := range []interface{}{map[string]interface{}{}, ucfg.New(), struct{}{}} {
					c := mk()
					err := c.Merge(e, policyOpt[p]...)
					chk("A<-empty", c, err, wa.Canon())
				}
				// empty <- A
				c := ucfg.New()
				err := c.Merge(wa.ToGo(), policyOpt[p]...)
				chk("empty<-A", c, err, wa.Canon())
				c = ucfg.New()
				err = c.Merge(mk(), policyOpt[p]...)
				chk("empty<-A(config)", c, err, wa.Canon())
				// A <- A, the same object as source
				c = mk()
				err = c.Merge(c, policyOpt[p]...)
				chk("A<-A(same object)", c, err, tree.Merge(p, wa, wa).Canon())
				if p == tree.Default || p == tree.Replace || p == tree.ReplaceArr {
					// the statement: changes nothing
					c = mk()
					err = c.Merge(c, policyOpt[p]...)
					chk("A<-A unchanged", c, err, wa.Canon())
				}
			})
			if pi != nil {
				return apiPanic("identities", pi)
			}
			if fail != nil {
				return core.Result{Viol: fail, Nontrivial: true}
			}
			return core.Result{Nontrivial: a.K == tree.Cont && (len(a.D) > 0 || len(a.A) > 0), Outcome: "id/" + p.String() + "/" + kindOf(a)}
		},
	}
}

// c01NilKeepsContainer: "a nil in B leaves a container of A in place" - also an empty one. The
// canonical form of the other spaces equates nil and the empty list, so this clause is observed
// directly: after the merge the setting is still a list (Child succeeds and IsArray holds, and Unpack
// into interface{} yields an empty list, not nil) for every placement and every non-replacing policy.
func c01NilKeepsContainer() *core.Space {
	type place struct {
		name string
		a, b M
		path []string // names (or #i for a list index) leading to the setting
	}
	places := []place{
		{"top-level key", M{"k": L{}, "o": 1}, M{"k": nil}, []string{"k"}},
		{"top-level key next to a non-empty list", M{"k": L{}, "j": L{"x"}}, M{"k": nil, "j": L{"y"}}, []string{"k"}},
		{"nested in a dictionary", M{"d": M{"k": L{}, "o": 1}}, M{"d": M{"k": nil}}, []string{"d", "k"}},
		{"two dictionaries deep", M{"d": M{"e": M{"k": L{}}}}, M{"d": M{"e": M{"k": nil, "n": 1}}}, []string{"d", "e", "k"}},
		{"inside a list element", M{"l": L{M{"k": L{}}}}, M{"l": L{M{"k": nil}}}, []string{"l", "#0", "k"}},
		{"an element of a list", M{"l": L{L{}, "x"}}, M{"l": L{nil, "y"}}, []string{"l", "#0"}},
	}
	pols := []tree.Policy{tree.Default, tree.Append, tree.Prepend}
	reps := []string{"map", "config"}
	radices := []int{len(places), len(pols), len(reps)}
	return &core.Space{
		Name: "nil-keeps-empty-container",
		Size: product(radices...),
		Text: func(i int) string {
			d := mixedRadix(i, radices...)
			return fmt.Sprintf("policy=%s A=%v B=%v (%s, B given as %s)", pols[d[1]], places[d[0]].a, places[d[0]].b, places[d[0]].name, reps[d[2]])
		},
		Exec: func(i int) core.Result {
			d := mixedRadix(i, radices...)
			pl, p := places[d[0]], pols[d[1]]
			// only index-wise merging keeps positions inside lists comparable
			if p != tree.Default && (pl.name == "inside a list element" || pl.name == "an element of a list") {
				return core.Result{Skipped: true}
			}
			var res core.Result
			pi := core.Guard(func() {
				a, err := ucfg.NewFrom(pl.a)
				if err != nil {
					panic("harness: " + err.Error())
				}
				var src interface{} = pl.b
				if d[2] == 1 {
					if src, err = ucfg.NewFrom(pl.b); err != nil {
						panic("harness: " + err.Error())
					}
				}
				if err := a.Merge(src, policyOpt[p]...); err != nil {
					res = core.Fail("nilkeeps", "ERROR "+p.String(), err.Error())
					return
				}
				node := a
				for _, seg := range pl.path {
					if seg[0] == '#' {
						node, err = node.Child("", int(seg[1]-'0'))
					} else {
						node, err = node.Child(seg, -1)
					}
					if err != nil {
						res = core.Fail("nilkeeps", "CONTAINER-REPLACED-BY-NIL "+p.String(), fmt.Sprintf("%s: the empty list of A is no longer a container after the merge: %v", pl.name, err))
						return
					}
				}
				if !node.IsArray() {
					res = core.Fail("nilkeeps", "CONTAINER-REPLACED-BY-NIL "+p.String(), fmt.Sprintf("%s: IsArray()=false after the merge", pl.name))
					return
				}
				var all interface{}
				var m map[string]interface{}
				if err := a.Unpack(&m); err != nil {
					res = core.Fail("nilkeeps", "ERROR "+p.String(), err.Error())
					return
				}
				all = m
				for _, seg := range pl.path {
					switch c := all.(type) {
					case map[string]interface{}:
						all = c[seg]
					case []interface{}:
						all = c[int(seg[1]-'0')]
					}
				}
				if l, ok := all.([]interface{}); !ok || l == nil || len(l) != 0 {
					res = core.Fail("nilkeeps", "CONTAINER-REPLACED-BY-NIL "+p.String(), fmt.Sprintf("%s: unpacks as %#v, expected an empty list", pl.name, all))
					return
				}
				res.Nontrivial = true
				res.Outcome = p.String()
			})
			if pi != nil {
				return apiPanic("nilkeeps", pi)
			}
			return res
		},
	}
}

// c01OverReferences: A holds settings that are references to objects or lists elsewhere in A. Merging
// B over such a setting merges with the referenced value, and the referenced setting itself - which B
// does not mention - stays what it was.
func c01OverReferences() *core.Space {
	type shape struct {
		name    string
		a       M // with references
		aPlain  M // the same data with the references substituted
		b       M
		refOnly string // the referenced setting B does not mention
	}
	shapes := []shape{
		{"object reference", M{"base": M{"k": L{"A0"}, "j": "A1"}, "x": "${base}"}, M{"base": M{"k": L{"A0"}, "j": "A1"}, "x": M{"k": L{"A0"}, "j": "A1"}}, M{"x": M{"k": L{"B0"}, "extra": "B1"}}, "base"},
		{"list reference", M{"base": L{"A0", "A1"}, "x": "${base}"}, M{"base": L{"A0", "A1"}, "x": L{"A0", "A1"}}, M{"x": L{"B0"}}, "base"},
		{"nested object reference", M{"t": M{"base": M{"k": L{"A0"}}}, "o": M{"x": "${t.base}"}}, M{"t": M{"base": M{"k": L{"A0"}}}, "o": M{"x": M{"k": L{"A0"}}}}, M{"o": M{"x": M{"k": L{"B0"}, "n": "B1"}}}, "t"},
		{"reference to an object holding a list of objects", M{"base": M{"l": L{M{"k": "A0"}}}, "x": "${base}"}, M{"base": M{"l": L{M{"k": "A0"}}}, "x": M{"l": L{M{"k": "A0"}}}}, M{"x": M{"l": L{M{"n": "B0"}}}}, "base"},
		{"two references to one object", M{"base": M{"k": L{"A0"}}, "x": "${base}", "y": "${base}"}, M{"base": M{"k": L{"A0"}}, "x": M{"k": L{"A0"}}, "y": M{"k": L{"A0"}}}, M{"x": M{"k": L{"B0"}}}, "base"},
		{"nil over nil stays nil", M{"n": nil, "o": M{"n": nil}}, M{"n": nil, "o": M{"n": nil}}, M{"n": nil, "o": M{"n": nil}}, ""},
	}
	radices := []int{len(shapes), len(allPolicies)}
	return &core.Space{
		Name: "merge-over-references",
		Size: product(radices...),
		Text: func(i int) string {
			d := mixedRadix(i, radices...)
			return fmt.Sprintf("policy=%s A=%v B=%v (%s)", allPolicies[d[1]], shapes[d[0]].a, shapes[d[0]].b, shapes[d[0]].name)
		},
		Exec: func(i int) core.Result {
			d := mixedRadix(i, radices...)
			sh, p := shapes[d[0]], allPolicies[d[1]]
			var res core.Result
			pi := core.Guard(func() {
				opts := []ucfg.Option{ucfg.PathSep("."), ucfg.VarExp}
				a, err := ucfg.NewFrom(sh.a, opts...)
				if err != nil {
					panic("harness: " + err.Error())
				}
				if err := a.Merge(sh.b, append(append([]ucfg.Option{}, opts...), policyOpt[p]...)...); err != nil {
					res = core.Fail("overrefs", "ERROR "+p.String(), err.Error())
					return
				}
				var got map[string]interface{}
				if err := a.Unpack(&got, opts...); err != nil {
					res = core.Fail("overrefs", "ERROR unpack "+p.String(), err.Error())
					return
				}
				if sh.refOnly == "" {
					// nil over nil: the setting is still nil (reads as the text null, is no object)
					if s, err := a.String("n", -1, opts...); err != nil || s != "null" {
						res = core.Fail("overrefs", "NIL-OVER-NIL "+p.String(), fmt.Sprintf("String(n) after merging nil over nil: (%q, %v)", s, err))
						return
					}
					res.Nontrivial = true
					return
				}
				want := tree.Merge(p, tree.FromGo(map[string]interface{}(sh.aPlain)), tree.FromGo(map[string]interface{}(sh.b)))
				if g, w := tree.CanonGo(got), want.Canon(); g != w {
					cls := "RESULT"
					plainA := tree.FromGo(map[string]interface{}(sh.aPlain))
					if tree.CanonGo(got[sh.refOnly]) != plainA.D[sh.refOnly].Canon() {
						cls = "REFERENCED-SETTING-CHANGED"
					}
					res = core.Fail("overrefs", cls+" "+p.String(), fmt.Sprintf("%s: model=%s impl=%s", sh.name, w, g))
					return
				}
				res.Nontrivial = true
				res.Outcome = p.String()
			})
			if pi != nil {
				return apiPanic("overrefs", pi)
			}
			return res
		},
	}
}

func init() {
	core.Register(&core.Check{
		ID:    "C01",
		Level: "exploration",
		Rule: "every (policy, A, B[, C]) over the bounded labelled tree sets listed per space is merged by the implementation and by the reference model; " +
			"a case is non-trivial when the operands overlap in at least one key or index (for identities: A is a non-empty container); cases are distinct by construction (one per index of the enumeration)",
		Assumptions: []string{
			"trees are bounded: depth<=2 over keys {a,b} and list length<=2 (full), depth<=4 on spines, nodes carrying both a dict and a list part at depth<=2",
			"observation is the canonical text of Unpack into map[string]interface{} (nil = absent = empty dict); leaves are unique string labels",
			"map iteration order is fixed to sorted order by the instrumentation overlay (order independence is C09)",
		},
		Spaces: func(tier string) []*core.Space {
			small := unionTrees(cachedEnum(2, kA, 2), cachedEnum(1, kAB, 2))
			t1 := cachedEnum(1, kAB, 2)
			if tier == "thorough" {
				full := cachedEnum(2, kAB, 2)
				return []*core.Space{
					c01NilKeepsContainer(),
					c01Pairs("pairs-T(2,{a,b},2)", full, []mergeRep{repMap}, true),
					c01Pairs("pairs-reps", small, []mergeRep{repStruct, repConfig}, false),
					c01Pairs("pairs-spines-depth4", spines(3), []mergeRep{repMap}, false),
					c01Pairs("pairs-mixed", mixedTrees(true), []mergeRep{repMap}, true),
					c01Chains(t1),
					c01Reuse(unionTrees(t1, spines(1))),
					c01Identities(unionTrees(full, spines(2), mixedTrees(false))),
				}
			}
			return []*core.Space{
				c01NilKeepsContainer(),
				c01OverReferences(),
				c01Pairs("pairs-T(2,{a},2)+T(1,{a,b},2)", small, []mergeRep{repMap}, true),
				c01Pairs("pairs-reps", t1, []mergeRep{repStruct, repConfig}, false),
				c01Pairs("pairs-spines-depth3", spines(2), []mergeRep{repMap}, false),
				c01Pairs("pairs-mixed", mixedTrees(false), []mergeRep{repMap}, true),
				c01Chains(unionTrees(cachedEnum(1, kA, 2), []*tree.Node{tree.Dict("a", tree.LeafN("L"), "b", tree.LeafN("L")), tree.Dict("b", tree.List(tree.LeafN("L")))})),
				c01Reuse(unionTrees(cachedEnum(1, kA, 2), []*tree.Node{tree.Dict("a", tree.Dict("a", tree.LeafN("L"))), tree.Dict("a", tree.List(tree.LeafN("L"))), tree.Dict("a", tree.LeafN("L"), "b", tree.List(tree.LeafN("L")))})),
				c01Identities(unionTrees(small, spines(1), mixedTrees(false))),
			}
		},
	})
}
