package checks

import (
	"fmt"

	ucfg "github.com/elastic/go-ucfg"
	"github.com/elastic/go-ucfg/diff"
	"github.com/elastic/go-ucfg/parse"

	"verif/internal/core"
	"verif/internal/tree"
	vx "verif/internal/varexp"
)

// C08, third space: the configuration {a, b} is read with an Env configuration that
// has settings of the same names (a) and one more (c). A name is re-entered only when
// the same setting of the same tree is evaluated again: root a -> Env c -> Env a is no
// cycle although the name a occurs twice on the way.

func c08EnvMenu() []vx.Exp {
	R := func(n string) vx.Exp { return vx.Ref{Name: vx.Lit(n)} }
	return []vx.Exp{
		nil, // absent
		vx.Lit("E"),
		R("a"),
		R("b"),
		R("c"),
		vx.Cat{vx.Lit("<"), R("a"), vx.Lit(">")},
		vx.Cat{vx.Lit("<"), R("b"), vx.Lit(">")},
		vx.Op{Kind: ":", Name: vx.Lit("a"), RHS: vx.Lit("ed")},
		vx.Op{Kind: ":", Name: vx.Lit("c"), RHS: vx.Lit("ed")},
	}
}

func c08EnvSpace() *core.Space {
	menu := c08Menu([]string{"a", "b", "c"})
	emenu := c08EnvMenu()
	radices := []int{2, len(menu), len(menu), len(emenu), len(emenu)}
	type kase struct {
		res  int
		a, b vx.Exp
		ea   vx.Exp
		ec   vx.Exp
	}
	dec := func(i int) kase {
		d := mixedRadix(i, radices...)
		return kase{res: d[0] * 2, a: menu[d[1]], b: menu[d[2]], ea: emenu[d[3]], ec: emenu[d[4]]}
	}
	rend := func(e vx.Exp) string {
		if e == nil {
			return "-"
		}
		return fmt.Sprintf("%q", e.Render())
	}
	return &core.Space{
		Name:        "settings-a-b+Env{a,c}",
		Size:        product(radices...),
		CaseTimeout: 20e9,
		Text: func(i int) string {
			k := dec(i)
			return fmt.Sprintf("{a: %s, b: %s} Env {a: %s, c: %s} with %s", rend(k.a), rend(k.b), rend(k.ea), rend(k.ec), c08Resolvers[k.res].Name)
		},
		Exec: func(i int) core.Result {
			k := dec(i)
			toSetting := func(e vx.Exp) vx.Setting {
				if lit, ok := e.(vx.Lit); ok {
					return vx.Setting{Plain: string(lit)}
				}
				return vx.Setting{Expr: e}
			}
			root := vx.Layer{"a": toSetting(k.a), "b": toSetting(k.b)}
			envL := vx.Layer{}
			envGo := map[string]interface{}{}
			if k.ea != nil {
				envL["a"] = toSetting(k.ea)
				envGo["a"] = k.ea.Render()
			}
			if k.ec != nil {
				envL["c"] = toSetting(k.ec)
				envGo["c"] = k.ec.Render()
			}
			model := &vx.Env{Root: root, Envs: []vx.Layer{envL}}
			if known := c08Resolvers[k.res].Known; known != nil {
				model.Resolvers = []map[string]string{known}
			}
			exps := map[string]vx.Exp{"a": k.a, "b": k.b}
			outcomes := map[string]vx.Outcome{}
			exact, interesting := true, false
			for _, n := range []string{"a", "b"} {
				o := vx.Eval(model, exps[n])
				outcomes[n] = o
				if o.Kind == vx.Undefined || o.Absorbed || o.Group || o.TouchedGroup {
					exact = false
				}
				if o.Kind == vx.Cyclic {
					interesting = true
				}
			}
			// the name a is met in both trees on the way
			for _, e := range []vx.Exp{k.ea, k.ec} {
				if e != nil {
					for _, r := range vx.Refs(e) {
						if r == "a" || r == "b" {
							interesting = true
						}
					}
				}
			}
			var res core.Result
			pi := core.Guard(func() {
				base := []ucfg.Option{ucfg.PathSep("."), ucfg.VarExp}
				envCfg, err := ucfg.NewFrom(envGo, base...)
				if err != nil {
					res = core.Fail("build", "BUILD", err.Error())
					return
				}
				opts := append([]ucfg.Option{}, base...)
				opts = append(opts, ucfg.Env(envCfg))
				if known := c08Resolvers[k.res].Known; known != nil {
					opts = append(opts, ucfg.Resolve(func(name string) (string, parse.Config, error) {
						if v, ok := known[name]; ok {
							return v, parse.NoopConfig, nil
						}
						return "", parse.NoopConfig, ucfg.ErrMissing
					}))
				}
				cfg, err := ucfg.NewFrom(map[string]interface{}{"a": k.a.Render(), "b": k.b.Render()}, base...)
				if err != nil {
					res = core.Fail("build", "BUILD", err.Error())
					return
				}
				if k.ea != nil && k.ea.Render() == k.a.Render() {
					// the same text in both trees: both settings are copies of one source setting
					// (defaults merged into the configuration and into its Env configuration)
					src, err := ucfg.NewFrom(map[string]interface{}{"a": k.a.Render()}, base...)
					if err != nil {
						res = core.Fail("build", "BUILD", err.Error())
						return
					}
					cfg, _ = ucfg.NewFrom(map[string]interface{}{"b": k.b.Render()}, base...)
					rest := map[string]interface{}{}
					if k.ec != nil {
						rest["c"] = k.ec.Render()
					}
					envCfg, _ = ucfg.NewFrom(rest, base...)
					if err := cfg.Merge(src, base...); err != nil {
						res = core.Fail("build", "BUILD", err.Error())
						return
					}
					if err := envCfg.Merge(src, base...); err != nil {
						res = core.Fail("build", "BUILD", err.Error())
						return
					}
					opts[len(base)] = ucfg.Env(envCfg)
				}
				fail := func(entry, class, detail string) {
					res = core.Fail(entry, class+" "+entry+" (Env)", detail)
				}
				anyErr := false
				for _, n := range []string{"a", "b"} {
					o := outcomes[n]
					s, err := cfg.String(n, -1, opts...)
					switch {
					case o.Kind == vx.Undefined || o.Group || o.TouchedGroup:
					case o.Absorbed:
						if o.Kind == vx.Value && o.Str != "" && err != nil {
							fail("String", "FALSE-ERROR(absorbed cycle)", fmt.Sprintf("String(%q): model resolves, impl error %v", n, err))
							return
						}
					case o.Kind == vx.Value:
						if err != nil {
							fail("String", "FALSE-ERROR", fmt.Sprintf("String(%q): model value %q, impl error %v", n, o.Str, err))
							return
						}
						if s != o.Str {
							fail("String", "WRONG-VALUE", fmt.Sprintf("String(%q): model %q impl %q", n, o.Str, s))
							return
						}
					case o.Kind == vx.Cyclic:
						anyErr = true
						if err == nil {
							fail("String", "CYCLE-NOT-REPORTED", fmt.Sprintf("String(%q): model cyclic, impl returned %q", n, s))
							return
						}
						if !reasonChainHas(err, ucfg.ErrCyclicReference) {
							fail("String", "CYCLE-WRONG-REASON", fmt.Sprintf("String(%q): model cyclic, impl error %v", n, err))
							return
						}
					default: // missing, user error
						anyErr = true
						if err == nil {
							fail("String", "ERROR-NOT-REPORTED", fmt.Sprintf("String(%q): model %v %s, impl returned %q", n, o.Kind, o.Str, s))
							return
						}
						if o.Kind == vx.Missing && !o.Absorbed && reasonChainHas(err, ucfg.ErrCyclicReference) {
							fail("String", "FALSE-CYCLE", fmt.Sprintf("String(%q): no reference is re-entered (%s cannot be resolved), impl reports a cycle: %v", n, o.Str, err))
							return
						}
					}
				}
				var m map[string]interface{}
				uerr := cfg.Unpack(&m, opts...)
				if exact {
					switch {
					case anyErr && uerr == nil:
						fail("Unpack->map", "ERROR-NOT-REPORTED", fmt.Sprintf("model: some setting is cyclic/missing, impl unpacked %v", tree.CanonGo(m)))
						return
					case !anyErr && uerr != nil:
						fail("Unpack->map", "FALSE-ERROR", fmt.Sprintf("model: every setting resolves, impl error %v", uerr))
						return
					case !anyErr:
						want := map[string]interface{}{"a": outcomes["a"].Str, "b": outcomes["b"].Str}
						if got, w := tree.CanonGo(m), tree.CanonGo(want); got != w {
							fail("Unpack->map", "WRONG-VALUE", fmt.Sprintf("model %s impl %s", w, got))
							return
						}
					}
				}
				// the remaining read entries return
				cfg.FlattenedKeys(opts...)
				if d := diff.CompareConfigs(cfg, cfg, opts...); d.HasChanged() {
					fail("CompareConfigs", "DIFF-SELF", fmt.Sprintf("CompareConfigs(c,c) reports changes: %v", d))
					return
				}
				res.Nontrivial = interesting
				res.Skipped = !exact && !interesting
				res.Outcome = fmt.Sprintf("err=%v exact=%v", anyErr, exact)
			})
			if pi != nil {
				return apiPanic("c08", pi)
			}
			return res
		},
	}
}
