package checks

import (
	"fmt"
	"os"
	"os/exec"
	"sort"
	"strings"
	"sync"
	"time"

	ucfg "github.com/elastic/go-ucfg"
	"github.com/elastic/go-ucfg/diff"
	"github.com/elastic/go-ucfg/parse"

	"verif/internal/core"
	"verif/internal/fp"
	"verif/internal/sched"
	"verif/internal/tree"
)

// C11: reads are pure, so concurrent readers are safe.

type c11Config struct {
	Name  string
	Build func() (*ucfg.Config, []ucfg.Option, interface{})
}

func c11Resolver(m map[string]string, pc parse.Config) ucfg.Option {
	return ucfg.Resolve(func(name string) (string, parse.Config, error) {
		if v, ok := m[name]; ok {
			return v, pc, nil
		}
		return "", pc, ucfg.ErrMissing
	})
}

var c11Configs = []c11Config{
	{"plain", func() (*ucfg.Config, []ucfg.Option, interface{}) {
		return mustCfg(M{"a": "x", "b": M{"c": 1}, "l": L{1, 2}, "n": nil}), nil, nil
	}},
	{"references", func() (*ucfg.Config, []ucfg.Option, interface{}) {
		o := []ucfg.Option{ucfg.PathSep("."), ucfg.VarExp}
		return mustCfg(M{"a": "${b.c}", "b": M{"c": "v"}, "l": L{"pre-${a}", "${a}${a}"}, "n": "${b}"}, o...), o, nil
	}},
	{"object-references", func() (*ucfg.Config, []ucfg.Option, interface{}) {
		o := []ucfg.Option{ucfg.PathSep("."), ucfg.VarExp}
		return mustCfg(M{"a": "${b.c}", "b": "${defaults}", "defaults": M{"c": "v", "hosts": L{"h1", "h2"}, "user": "${a}"}, "l": "${defaults.hosts}", "n": "${defaults}"}, o...), o, nil
	}},
	{"resolver-objects", func() (*ucfg.Config, []ucfg.Option, interface{}) {
		o := []ucfg.Option{ucfg.PathSep("."), ucfg.VarExp, c11Resolver(map[string]string{"obj": "{c: 1, d: [2, 3]}", "lst": "[x, y]", "prim": "5"}, parse.DefaultConfig)}
		return mustCfg(M{"a": "${prim}", "b": "${obj}", "l": "${lst}", "n": "x-${prim}"}, o...), o, nil
	}},
	{"env", func() (*ucfg.Config, []ucfg.Option, interface{}) {
		env := mustCfg(M{"e": M{"x": "from-env"}, "f": "${e.x}"}, ucfg.PathSep("."), ucfg.VarExp)
		o := []ucfg.Option{ucfg.PathSep("."), ucfg.VarExp, ucfg.Env(env)}
		return mustCfg(M{"a": "${e.x}", "b": M{"c": "${f}"}, "l": L{"${a}"}, "n": nil}, o...), o, env
	}},
	{"cycles-with-defaults", func() (*ucfg.Config, []ucfg.Option, interface{}) {
		o := []ucfg.Option{ucfg.PathSep("."), ucfg.VarExp}
		return mustCfg(M{"a": "${n:d}", "b": M{"c": "${a}${a}"}, "l": L{"${l.0:e}"}, "n": "${a}"}, o...), o, nil
	}},
	{"child-handle", func() (*ucfg.Config, []ucfg.Option, interface{}) {
		o := []ucfg.Option{ucfg.PathSep("."), ucfg.VarExp}
		big := mustCfg(M{"top": "T", "sub": M{"a": "${top}", "b": M{"c": 1}, "l": L{M{"x": "${sub.a}"}}, "n": nil}}, o...)
		return mustChild(big, "sub", -1), o, big
	}},
	{"metadata", func() (*ucfg.Config, []ucfg.Option, interface{}) {
		o := []ucfg.Option{ucfg.MetaData(ucfg.Meta{Source: "f.yml"})}
		return mustCfg(M{"a": "x", "b": M{"c": L{1, M{"d": 2}}}, "l": L{L{1}, L{}}, "n": nil}, o...), nil, nil
	}},
}

type c11Read struct {
	Name string
	Do   func(c *ucfg.Config, o []ucfg.Option) string
}

func rs(v interface{}, err error) string {
	if err != nil {
		return "err:" + errClass(err)
	}
	return fmt.Sprint(v)
}

type c11Captured struct {
	A interface{}
	B *ucfg.Config
	L interface{}
	N *ucfg.Config
}

var c11Reads = []c11Read{
	{"Unpack->map", func(c *ucfg.Config, o []ucfg.Option) string {
		var m map[string]interface{}
		err := c.Unpack(&m, o...)
		return rs(tree.CanonGoOpt(m, true), err)
	}},
	{"Unpack->struct(captured *Config)", func(c *ucfg.Config, o []ucfg.Option) string {
		var t c11Captured
		err := c.Unpack(&t, o...)
		if err != nil {
			return rs(nil, err)
		}
		s := fmt.Sprintf("A=%v L=%v", t.A, t.L)
		if t.B != nil {
			var m map[string]interface{}
			e2 := t.B.Unpack(&m, o...)
			s += " B=" + rs(tree.CanonGoOpt(m, true), e2)
		}
		return s
	}},
	{"Unpack->struct(pre-filled *Config)", func(c *ucfg.Config, o []ucfg.Option) string {
		t := c11Captured{B: mustCfg(M{"own": 1})}
		err := c.Unpack(&t, o...)
		if err != nil {
			return rs(nil, err)
		}
		var m map[string]interface{}
		e2 := t.B.Unpack(&m, o...)
		return "B=" + rs(tree.CanonGoOpt(m, true), e2)
	}},
	{"Unpack twice into one struct(captured *Config)", func(c *ucfg.Config, o []ucfg.Option) string {
		var t c11Captured
		if err := c.Unpack(&t, o...); err != nil {
			return rs(nil, err)
		}
		if err := c.Unpack(&t, o...); err != nil {
			return rs(nil, err)
		}
		s := fmt.Sprintf("A=%v L=%v", t.A, t.L)
		for _, sub := range []*ucfg.Config{t.B, t.N} {
			if sub != nil {
				var m map[string]interface{}
				e2 := sub.Unpack(&m, o...)
				s += " sub=" + rs(tree.CanonGoOpt(m, true), e2)
			}
		}
		return s
	}},
	{"Unpack twice into one struct(captured *Config), AppendValues", func(c *ucfg.Config, o []ucfg.Option) string {
		var t c11Captured
		oa := append(append([]ucfg.Option{}, o...), ucfg.AppendValues)
		if err := c.Unpack(&t, oa...); err != nil {
			return rs(nil, err)
		}
		if err := c.Unpack(&t, oa...); err != nil {
			return rs(nil, err)
		}
		s := ""
		for _, sub := range []*ucfg.Config{t.B, t.N} {
			if sub != nil {
				var m map[string]interface{}
				e2 := sub.Unpack(&m, o...)
				s += " sub=" + rs(tree.CanonGoOpt(m, true), e2)
			}
		}
		return s
	}},
	{"String(a)", func(c *ucfg.Config, o []ucfg.Option) string { return rs(c.String("a", -1, o...)) }},
	{"Int(a)", func(c *ucfg.Config, o []ucfg.Option) string { return rs(c.Int("a", -1, o...)) }},
	{"String(l,0)", func(c *ucfg.Config, o []ucfg.Option) string { return rs(c.String("l", 0, o...)) }},
	{"String(l,1)", func(c *ucfg.Config, o []ucfg.Option) string { return rs(c.String("l", 1, o...)) }},
	{"Bool(n)", func(c *ucfg.Config, o []ucfg.Option) string { return rs(c.Bool("n", -1, o...)) }},
	{"Child(b)+String(c)", func(c *ucfg.Config, o []ucfg.Option) string {
		ch, err := c.Child("b", -1, o...)
		if err != nil {
			return rs(nil, err)
		}
		return rs(ch.String("c", -1, o...)) + " path=" + ch.Path(".")
	}},
	{"Child(n)", func(c *ucfg.Config, o []ucfg.Option) string {
		ch, err := c.Child("n", -1, o...)
		if err != nil {
			return rs(nil, err)
		}
		return fmt.Sprint(ch.GetFields(), ch.IsDict(), ch.IsArray())
	}},
	{"Has(b.c)", func(c *ucfg.Config, o []ucfg.Option) string {
		return rs(c.Has("b.c", -1, append(o, ucfg.PathSep("."))...))
	}},
	{"Has(l,5)", func(c *ucfg.Config, o []ucfg.Option) string { return rs(c.Has("l", 5, o...)) }},
	{"named lookups on the list l", func(c *ucfg.Config, o []ucfg.Option) string {
		op := append(append([]ucfg.Option{}, o...), ucfg.PathSep("."))
		s := rs(c.Has("l.name", -1, op...)) + " " + rs(c.String("l.name", -1, op...)) + " "
		if l, err := c.Child("l", -1, o...); err == nil {
			s += rs(l.Has("name", -1, o...)) + " " + rs(l.String("name", -1, o...)) + " " + rs(l.CountField("name", o...)) + fmt.Sprint(" ", l.HasField("name"), l.IsDict(), l.IsArray())
		}
		return s
	}},
	{"Unpack->struct with an object where the config has the list l", func(c *ucfg.Config, o []ucfg.Option) string {
		var t struct {
			L struct{ Name string }
			B struct{ C interface{} }
		}
		err := c.Unpack(&t, o...)
		return rs(fmt.Sprintf("%+v", t), err)
	}},
	{"CountField(l)", func(c *ucfg.Config, o []ucfg.Option) string { return rs(c.CountField("l", o...)) }},
	{"CountField(b)", func(c *ucfg.Config, o []ucfg.Option) string { return rs(c.CountField("b", o...)) }},
	{"GetFields/Path/Parent", func(c *ucfg.Config, o []ucfg.Option) string {
		f := c.GetFields()
		sort.Strings(f)
		return fmt.Sprint(f, c.Path("."), c.PathOf("x", "."), c.Parent() != nil, c.IsDict(), c.IsArray(), c.HasField("a"))
	}},
	{"FlattenedKeys", func(c *ucfg.Config, o []ucfg.Option) string { return fmt.Sprint(c.FlattenedKeys(o...)) }},
	{"dst.Merge(shared)", func(c *ucfg.Config, o []ucfg.Option) string {
		d := ucfg.New()
		if err := d.Merge(c, o...); err != nil {
			return rs(nil, err)
		}
		var m map[string]interface{}
		err := d.Unpack(&m, o...)
		return rs(tree.CanonGoOpt(m, true), err)
	}},
	{"dst.Merge({k:shared})", func(c *ucfg.Config, o []ucfg.Option) string {
		d := mustCfg(M{"k": M{"own": 1}})
		if err := d.Merge(M{"k": c, "j": L{c}}, o...); err != nil {
			return rs(nil, err)
		}
		return fmt.Sprint(d.FlattenedKeys(o...))
	}},
	{"dst.Merge(struct{C *Config `k`; M map `k`}) without a separator", func(c *ucfg.Config, o []ucfg.Option) string {
		type sameName struct {
			C *ucfg.Config           `config:"k"`
			M map[string]interface{} `config:"k"`
		}
		d := ucfg.New()
		// (no PathSep here: the two fields collide by name only)
		if err := d.Merge(sameName{c, M{"zz9": 1, "b": M{"zz9": 2}}}); err != nil {
			return rs(nil, err)
		}
		k := d.FlattenedKeys()
		sort.Strings(k)
		return fmt.Sprint(len(k) > 0)
	}},
	{"dst.Merge(struct{C *Config `k`; X int `k.zz9`}) with PathSep", func(c *ucfg.Config, o []ucfg.Option) string {
		type dotted struct {
			C *ucfg.Config `config:"k"`
			X int          `config:"k.zz9"`
			Y int          `config:"k.b.zz9"`
		}
		d := ucfg.New()
		if err := d.Merge(dotted{c, 1, 2}, ucfg.PathSep(".")); err != nil {
			return rs(nil, err)
		}
		return fmt.Sprint(len(d.FlattenedKeys()) > 0)
	}},
	{"dst.Merge(struct{*Config})", func(c *ucfg.Config, o []ucfg.Option) string {
		d := ucfg.New()
		if err := d.Merge(struct{ K *ucfg.Config }{c}, append(o, ucfg.AppendValues)...); err != nil {
			return rs(nil, err)
		}
		return fmt.Sprint(d.FlattenedKeys(o...))
	}},
	{"CompareConfigs(shared,other)", func(c *ucfg.Config, o []ucfg.Option) string {
		other := mustCfg(M{"a": "y", "z": 1})
		d := diff.CompareConfigs(c, other, o...)
		k, a, r := append([]string{}, d[diff.Keep]...), append([]string{}, d[diff.Add]...), append([]string{}, d[diff.Remove]...)
		sort.Strings(k)
		sort.Strings(a)
		sort.Strings(r)
		return fmt.Sprint(k, a, r)
	}},
}

func guarded(f func() string) (s string) {
	defer func() {
		if r := recover(); r != nil {
			s = fmt.Sprint("PANIC: ", r)
		}
	}()
	return f()
}

// (1) purity, sequential: words of <=2 reads
func c11Purity() *core.Space {
	nC, nR := len(c11Configs), len(c11Reads)
	radices := []int{nC, nR, nR + 1}
	return &core.Space{
		Name: "purity-words<=2",
		Size: product(radices...),
		Text: func(i int) string {
			d := mixedRadix(i, radices...)
			w := c11Reads[d[1]].Name
			if d[2] > 0 {
				w += " ; " + c11Reads[d[2]-1].Name
			}
			return fmt.Sprintf("config %s: %s", c11Configs[d[0]].Name, w)
		},
		Exec: func(i int) core.Result {
			d := mixedRadix(i, radices...)
			var res core.Result
			pi := core.Guard(func() {
				c, o, keep := c11Configs[d[0]].Build()
				before := fp.Of(fp.Exact, c, keep)
				r1 := c11Reads[d[1]].Do(c, o)
				if after := fp.Of(fp.Exact, c, keep); after != before {
					res = core.Fail("purity", "READ-MODIFIES-CONFIG "+c11Reads[d[1]].Name, fmt.Sprintf("%s on config %s changed the internal state: %s", c11Reads[d[1]].Name, c11Configs[d[0]].Name, firstDiff(before, after)))
					return
				}
				if d[2] > 0 {
					second := c11Reads[d[2]-1]
					got := second.Do(c, o)
					if after := fp.Of(fp.Exact, c, keep); after != before {
						res = core.Fail("purity", "READ-MODIFIES-CONFIG "+second.Name, fmt.Sprintf("%s after %s on config %s changed the internal state: %s", second.Name, c11Reads[d[1]].Name, c11Configs[d[0]].Name, firstDiff(before, after)))
						return
					}
					c2, o2, _ := c11Configs[d[0]].Build()
					solo := second.Do(c2, o2)
					if got != solo {
						res = core.Fail("purity", "RESULT-DEPENDS-ON-EARLIER-READ "+second.Name, fmt.Sprintf("config %s: %s alone gives %q, after %s it gives %q", c11Configs[d[0]].Name, second.Name, solo, c11Reads[d[1]].Name, got))
						return
					}
				}
				_ = r1
				res.Nontrivial = true
				res.States = 1
				res.Trans = 2
			})
			if pi != nil {
				return apiPanic("purity", pi)
			}
			return res
		},
	}
}

// c11ScenarioTime: wall-clock cap per scenario (a cap is reported as scenarios_capped, never a verdict)
func c11ScenarioTime(bound int) time.Duration {
	if bound >= 2 {
		return 12 * time.Second
	}
	return 60 * time.Second
}

// (2) interleavings under the scheduler
func c11Sched(bound, maxExec int, triples bool) *core.Space {
	nC, nR := len(c11Configs), len(c11Reads)
	type scen struct {
		cfg   int
		reads []int
	}
	var scens []scen
	for c := 0; c < nC; c++ {
		for a := 0; a < nR; a++ {
			for b := a; b < nR; b++ {
				scens = append(scens, scen{c, []int{a, b}})
			}
		}
	}
	if triples {
		for _, c := range []int{1, 2, 4} {
			for a := 0; a < nR; a += 3 {
				for b := a + 1; b < nR; b += 4 {
					for d := b + 1; d < nR; d += 5 {
						scens = append(scens, scen{c, []int{a, b, d}})
					}
				}
			}
		}
	}
	name := fmt.Sprintf("interleavings-preemptions<=%d", bound)
	return &core.Space{
		Name:        name,
		Size:        len(scens),
		CaseTimeout: 120e9,
		Chunk:       4, // small shards: the run's time budget is looked at between shards
		Text: func(i int) string {
			s := scens[i]
			var names []string
			for _, r := range s.reads {
				names = append(names, c11Reads[r].Name)
			}
			return fmt.Sprintf("config %s: threads %s", c11Configs[s.cfg].Name, strings.Join(names, " || "))
		},
		Exec: func(i int) core.Result {
			s := scens[i]
			// solo results
			solo := make([]string, len(s.reads))
			for k, r := range s.reads {
				c, o, _ := c11Configs[s.cfg].Build()
				solo[k] = guarded(func() string { return c11Reads[r].Do(c, o) })
			}
			ex := &sched.Explorer{Bound: bound, MaxExec: maxExec, MaxTime: c11ScenarioTime(bound)}
			var viol *core.Violation
			var results []string
			var before string
			var cur *ucfg.Config
			var keep interface{}
			scenario := func(prefix []int) *sched.Execution {
				c, o, k := c11Configs[s.cfg].Build()
				cur, keep = c, k
				before = fp.Of(fp.Exact, c, k)
				results = make([]string, len(s.reads))
				var bodies []func()
				for k, r := range s.reads {
					k, r := k, r
					bodies = append(bodies, func() { results[k] = guarded(func() string { return c11Reads[r].Do(c, o) }) })
				}
				return sched.Run(prefix, bodies)
			}
			check := func(x *sched.Execution) bool {
				sch := fmt.Sprintf("schedule %v", x.Choices)
				switch {
				case x.Timeout:
					return true // inconclusive, counted
				case x.Deadlock:
					viol = &core.Violation{Sub: "sched", Sig: "DEADLOCK", Detail: sch}
				case len(x.Panics) > 0:
					viol = &core.Violation{Sub: "sched", Sig: "PANIC-UNDER-SCHEDULE " + lastSeg(x.Panics[0]), Detail: sch + ": " + x.Panics[0]}
				}
				if viol == nil {
					for k := range results {
						if results[k] != solo[k] {
							viol = &core.Violation{Sub: "sched", Sig: "RESULT-DIFFERS-FROM-SOLO " + c11Reads[s.reads[k]].Name, Detail: fmt.Sprintf("%s: thread %d (%s) returned %q, alone it returns %q", sch, k, c11Reads[s.reads[k]].Name, results[k], solo[k])}
							break
						}
					}
				}
				if viol == nil {
					if after := fp.Of(fp.Exact, cur, keep); after != before {
						viol = &core.Violation{Sub: "sched", Sig: "STATE-CHANGED-UNDER-SCHEDULE", Detail: sch + ": " + firstDiff(before, after)}
					}
				}
				return viol == nil
			}
			var failing []int
			if vec, replaying := core.ReplayChoices(); replaying {
				x := scenario(vec)
				check(x)
				ex.Executions = 1
				failing = vec
			} else {
				ex.Explore(scenario, func(x *sched.Execution) bool {
					ok := check(x)
					if !ok {
						failing = append([]int{}, x.Choices...)
					}
					return ok
				})
			}
			if viol != nil {
				viol.Choices = failing
			}
			res := core.Result{Trans: ex.Executions, States: 1, Nontrivial: ex.Executions > 1 || viol != nil, Extra: map[string]int{"schedules": ex.Executions, "max_points": ex.MaxPoints}}
			if ex.Capped {
				res.Extra["scenarios_capped"] = 1
			}
			if ex.Timeouts > 0 {
				res.Extra["inconclusive_timeouts"] = ex.Timeouts
			}
			if viol != nil {
				res.Viol = viol
			}
			return res
		},
	}
}

func lastSeg(s string) string {
	if i := strings.LastIndex(s, "@"); i >= 0 {
		return strings.TrimSpace(s[i+1:])
	}
	return ""
}

// (3) free-running pass under the race detector: executed by a second binary built with -race.
// RaceMain is that binary's entry: run every (config, pair) as free goroutines.
func RaceMain(args []string) int {
	nC, nR := len(c11Configs), len(c11Reads)
	for c := 0; c < nC; c++ {
		for a := 0; a < nR; a++ {
			for b := a; b < nR; b++ {
				fmt.Fprintf(os.Stderr, "SCENARIO config=%s reads=%s||%s\n", c11Configs[c].Name, c11Reads[a].Name, c11Reads[b].Name)
				cfg, o, _ := c11Configs[c].Build()
				var wg sync.WaitGroup
				start := make(chan struct{})
				for _, r := range []int{a, b, a} {
					r := r
					wg.Add(1)
					go func() {
						defer wg.Done()
						<-start
						guarded(func() string { return c11Reads[r].Do(cfg, o) })
					}()
				}
				close(start)
				wg.Wait()
			}
		}
	}
	fmt.Fprintln(os.Stderr, "SCENARIO end")
	return 0
}

func c11RacePass(tier string, add func(space string, index int, text string, r core.Result)) {
	bin := os.Getenv("VERIF_RACE_BIN")
	if bin == "" {
		add("race-pass", 0, "race binary not built", core.Result{Skipped: true})
		return
	}
	cmd := exec.Command(bin, "racepass")
	cmd.Env = append(os.Environ(), "GORACE=halt_on_error=0 history_size=3", "GOMAXPROCS=4")
	out, _ := cmd.CombinedOutput()
	scenario := ""
	idx := 0
	lines := strings.Split(string(out), "\n")
	races := map[string]string{}
	for li := 0; li < len(lines); li++ {
		ln := lines[li]
		if strings.HasPrefix(ln, "SCENARIO ") {
			if scenario != "" {
				if msg, bad := races[scenario]; bad {
					site := raceSite(msg)
					add("race-pass", idx, scenario, core.Fail("race", "DATA-RACE "+site, msg))
				} else {
					add("race-pass", idx, scenario, core.Result{Nontrivial: true})
				}
				idx++
			}
			scenario = strings.TrimPrefix(ln, "SCENARIO ")
			continue
		}
		if strings.Contains(ln, "WARNING: DATA RACE") {
			var blk []string
			for j := li; j < len(lines) && j < li+60 && !strings.HasPrefix(lines[j], "=================="); j++ {
				blk = append(blk, lines[j])
			}
			if _, ok := races[scenario]; !ok {
				races[scenario] = strings.Join(blk, " | ")
			}
		}
	}
	if idx == 0 {
		add("race-pass", 0, "race pass produced no scenarios: "+trunc200(string(out)), core.Fail("race", "RACE-PASS-BROKEN", trunc200(string(out))))
	}
}

func raceSite(msg string) string {
	for _, part := range strings.Split(msg, " | ") {
		p := strings.TrimSpace(part)
		if strings.HasPrefix(p, "github.com/elastic/go-ucfg.") && !strings.Contains(p, "verifrt") {
			if i := strings.Index(p, "("); i > 0 {
				p = p[:i]
			}
			return strings.TrimPrefix(p, "github.com/elastic/go-ucfg.")
		}
	}
	return "?"
}

func init() {
	core.Extra["racepass"] = RaceMain
	core.Register(&core.Check{
		ID:    "C11",
		Level: "model_checking",
		Rule:  "(1) purity: for 7 configs (plain, references and splices, resolver values that parse into objects and lists, Env, cycles cut by defaults, child handle, metadata) and every word of <=2 reads over 20 read operations (Unpack into map / struct with captured or pre-filled *Config, typed getters, Child, Has, CountField, GetFields/Path/PathOf/Parent, FlattenedKeys, use as merge source directly / nested in map and slice / in a struct, CompareConfigs) the Exact heap fingerprint is unchanged and the second read returns what it returns alone; (2) interleavings: for every config and every unordered pair of reads (thorough: plus triples) all schedules with at most 1 (quick) / 2 (thorough) preemptions at function-entry and heap-store granularity under the cooperative scheduler - each thread's result must equal its solo result, the final fingerprint the initial one, no panic, no deadlock; (3) the same pairs as free-running goroutines in a binary built with -race: no data race in go-ucfg frames; states = scenarios, transitions = schedules executed; non-trivial = scenario with more than one schedule",
		Assumptions: []string{
			"scheduling granularity is the block between two instrumented points; unsynchronised accesses inside a block are the race detector's part (free-running pass, a dynamic detector)",
			"preemption bound 1 (quick) / 2 (thorough); scenarios whose exploration hits the execution cap are counted in scenarios_capped",
		},
		Spaces: func(tier string) []*core.Space {
			if tier == "thorough" {
				return []*core.Space{c11Purity(), c11Sched(2, 60000, true)}
			}
			return []*core.Space{c11Purity(), c11Sched(1, 4000, false)}
		},
		External: c11RacePass,
	})
}
