package checks

import (
	"fmt"
	"math"
	"reflect"
	"regexp"
	"runtime"
	"sort"
	"strings"
	"time"
	"unsafe"

	ucfg "github.com/elastic/go-ucfg"
	"github.com/elastic/go-ucfg/hjson"
	ujson "github.com/elastic/go-ucfg/json"
	"github.com/elastic/go-ucfg/parse"
	"github.com/elastic/go-ucfg/verifrt"
	"github.com/elastic/go-ucfg/yaml"

	"verif/internal/core"
	"verif/internal/sched"
)

// C07: no input makes the library panic, hang, leak a goroutine or allocate without
// bound. Every case runs inside an isolated worker: a panic is recovered and reported
// with the innermost go-ucfg function; a fatal error (stack overflow, out of memory)
// or a hang kills only the worker and is reported with the journalled case.

// strings over an alphabet, shortest first
func stringsOver(sigma []string, maxLen int) func(i int) string {
	return func(i int) string {
		n := len(sigma)
		l, cnt := 0, 1
		for i >= cnt {
			i -= cnt
			cnt *= n
			l++
		}
		d := make([]string, l)
		for k := l - 1; k >= 0; k-- {
			d[k] = sigma[i%n]
			i /= n
		}
		return strings.Join(d, "")
	}
}

func countStrings(n, maxLen int) int {
	total, p := 0, 1
	for l := 0; l <= maxLen; l++ {
		total += p
		p *= n
	}
	return total
}

// goroutine accounting: every goroutine started through the `go` hook must have finished.
// Goroutines found leaked by an earlier case of this worker stay leaked: they are the
// baseline for later cases (each leak is attributed to the case that caused it).
var leakedSoFar int64

func leakCheck() (int64, bool) {
	deadline := time.Now().Add(3 * time.Second)
	for i := 0; ; i++ {
		s, f := verifrt.GoCounts()
		if s-f <= leakedSoFar {
			return 0, true
		}
		if time.Now().After(deadline) {
			n := s - f - leakedSoFar
			leakedSoFar = s - f
			return n, false
		}
		if i < 100 {
			runtime.Gosched()
		} else {
			time.Sleep(time.Millisecond)
		}
	}
}

func c07Wrap(sub string, f func()) core.Result {
	pi := core.Guard(f)
	if pi != nil {
		return apiPanic(sub, pi)
	}
	if n, ok := leakCheck(); !ok {
		return core.Fail(sub, "LEAK@"+sub, fmt.Sprintf("%d goroutine(s) started by the library did not finish within 3s", n))
	}
	return core.Result{Nontrivial: true}
}

// (a) parse.ValueWithConfig
func c07Parse(maxLen int) *core.Space {
	cfgs := c17Configs()
	str := stringsOver(c17Sigma, maxLen)
	n := countStrings(len(c17Sigma), maxLen)
	return &core.Space{
		Name: fmt.Sprintf("parse-strings<=%d", maxLen),
		Size: n,
		Text: func(i int) string { return fmt.Sprintf("parse.ValueWithConfig(%q, <each of 32 configs>)", str(i)) },
		Exec: func(i int) core.Result {
			s := str(i)
			return c07Wrap("parse", func() {
				for _, c := range cfgs {
					parse.ValueWithConfig(s, c)
				}
				parse.Value(s)
			})
		},
	}
}

// (b) strings stored as settings under VarExp
var c07VarSigma = []string{"$", "{", "}", ":", "+", "?", "a", "."}

func c07VarExp(maxLen int, prefixes []string) *core.Space {
	base := stringsOver(c07VarSigma, maxLen)
	nb := countStrings(len(c07VarSigma), maxLen)
	str := func(i int) string { return prefixes[i/nb] + base(i%nb) }
	n := nb * len(prefixes)
	name := fmt.Sprintf("varexp-strings<=%d", maxLen)
	if len(prefixes) > 1 || prefixes[0] != "" {
		name = fmt.Sprintf("varexp-%q+strings<=%d", prefixes, maxLen)
	}
	return &core.Space{
		Name: name,
		Size: n,
		Text: func(i int) string {
			return fmt.Sprintf("NewFrom({k: %q, a: \"va\"}, VarExp, PathSep) then String/Unpack/FlattenedKeys/Has/CountField", str(i))
		},
		Exec: func(i int) core.Result {
			s := str(i)
			return c07Wrap("varexp", func() {
				// a resolver for which every variable is set but empty, and one whose values are objects and lists
				emptyRes := ucfg.Resolve(func(string) (string, parse.Config, error) { return "", parse.DefaultConfig, nil })
				objRes := ucfg.Resolve(func(n string) (string, parse.Config, error) {
					if len(n)%2 == 0 {
						return "{a: 1}", parse.DefaultConfig, nil
					}
					return "[1, [2]]", parse.DefaultConfig, nil
				})
				for _, opts := range [][]ucfg.Option{{ucfg.VarExp}, {ucfg.VarExp, ucfg.PathSep(".")}, {ucfg.VarExp, ucfg.PathSep("."), ucfg.ResolveEnv}, {ucfg.VarExp, ucfg.ResolveNOOP}, {ucfg.VarExp, ucfg.PathSep("."), emptyRes}, {ucfg.VarExp, ucfg.PathSep("."), objRes}} {
					c, err := ucfg.NewFrom(M{"k": s, "a": "va"}, opts...)
					if err != nil {
						continue
					}
					c.String("k", -1, opts...)
					c.Int("k", -1, opts...)
					c.Child("k", -1, opts...)
					var m map[string]interface{}
					c.Unpack(&m, opts...)
					var st struct {
						K []string
					}
					c.Unpack(&st, opts...)
					c.FlattenedKeys(opts...)
					c.Has("k.x", -1, opts...)
					c.CountField("k", opts...)
					c.Remove("k.a", -1, opts...)
				}
			})
		},
	}
}

// (c) loaders
func c07Loaders(maxLen int) *core.Space {
	type fmtSpec struct {
		Name  string
		Sigma []string
		Load  func([]byte, ...ucfg.Option) (*ucfg.Config, error)
		Seeds []string
	}
	specs := []fmtSpec{
		{"yaml", []string{"a", "1", ":", "-", "[", "]", "{", "}", ",", "\"", "'", "#", "&", "*", "\n", " "}, yaml.NewConfig,
			[]string{"a: 1\nb:\n  - x\n  - {c: d}\n", "&x a: [1, 2]\nb: *x\n", "a.b: 1\n0: x\n\"k\": '${a}'\n"}},
		{"json", []string{"a", "1", ":", "-", "[", "]", "{", "}", ",", "\"", "\\", "e", ".", "n", "\n", " "}, ujson.NewConfig,
			[]string{`{"a":1,"b":["x",{"c":null}]}`, `[1,-2.5e3,"s",true]`, `{"a.b":{"0":"${a}"},"":[]}`}},
		{"hjson", []string{"a", "1", ":", "-", "[", "]", "{", "}", ",", "\"", "'", "#", "/", "*", "\n", " "}, hjson.NewConfig,
			[]string{"{\n  a: 1\n  b: [x, {c: d}]\n}", "a: '''\n  multi\n  '''\nb: 2 # c\n", "{\"a.b\": 1, 0: x /* c */}"}},
	}
	type lcase struct {
		spec int
		doc  string
	}
	var cases []lcase
	for si, sp := range specs {
		str := stringsOver(sp.Sigma, maxLen)
		for i := 0; i < countStrings(len(sp.Sigma), maxLen); i++ {
			cases = append(cases, lcase{si, str(i)})
		}
		for _, seed := range sp.Seeds {
			for p := 0; p <= len(seed); p++ {
				cases = append(cases, lcase{si, seed[:p]})
			}
			for p := 0; p < len(seed); p++ {
				cases = append(cases, lcase{si, seed[:p] + seed[p+1:]})
				for _, c := range sp.Sigma {
					cases = append(cases, lcase{si, seed[:p] + c + seed[p+1:]})
				}
			}
		}
	}
	return &core.Space{
		Name: fmt.Sprintf("loaders-bytes<=%d+seed-neighbours", maxLen),
		Size: len(cases),
		Text: func(i int) string {
			return fmt.Sprintf("%s.NewConfig(%q) then Unpack/FlattenedKeys", specs[cases[i].spec].Name, cases[i].doc)
		},
		Exec: func(i int) core.Result {
			c := cases[i]
			return c07Wrap("loader", func() {
				for _, opts := range [][]ucfg.Option{nil, {ucfg.PathSep("."), ucfg.VarExp}} {
					cfg, err := specs[c.spec].Load([]byte(c.doc), opts...)
					if err != nil || cfg == nil {
						continue
					}
					var m map[string]interface{}
					cfg.Unpack(&m, opts...)
					var l []interface{}
					cfg.Unpack(&l, opts...)
					cfg.FlattenedKeys(opts...)
				}
			})
		},
	}
}

// (d) addresses
// c07LastAlloc: bytes allocated by the measured call of the current case (0 = not measured)
var c07LastAlloc int64

func c07Addresses() *core.Space {
	names := []string{"", "a", "a.b", "a..b", ".", "0", "00", "-1", "-0", "a.-1", "+1", "0x1", "1025", "9999999999", "99999999999999999999", "[a]", "[", "a.[b].c", "l", "l.0", "l.5", "p", "p.x", "d.l.1"}
	idxs := []int{math.MinInt64, -2, -1, 0, 1, 2, 1024, 1025, 1 << 20, 1 << 40, math.MaxInt32, math.MaxInt64}
	optSets := [][]ucfg.Option{nil, {ucfg.PathSep(".")}, {ucfg.PathSep("."), ucfg.EscapePath()}, {ucfg.EnableNumKeys(true)}, {ucfg.MaxIdx(3), ucfg.PathSep(".")}}
	maxIdxOf := []int64{1024, 1024, 1024, 1024, 3}
	bases := []func() *ucfg.Config{
		func() *ucfg.Config { return ucfg.New() },
		func() *ucfg.Config { return mustCfg(M{"a": M{"b": 1}, "p": "prim"}) },
		func() *ucfg.Config { return mustCfg(L{1, "x", M{"k": 1}}) },
		func() *ucfg.Config { return mustCfg(M{"d": M{"l": L{1, 2}}, "l": L{M{"x": 1}}}) },
		func() *ucfg.Config { return mustCfg(M{"p": "prim", "a": nil}) },
		func() *ucfg.Config { return &ucfg.Config{} }, // the zero value
	}
	type op struct {
		Name string
		Do   func(c *ucfg.Config, n string, i int, o []ucfg.Option)
	}
	ops := []op{
		{"Bool", func(c *ucfg.Config, n string, i int, o []ucfg.Option) { c.Bool(n, i, o...) }},
		{"Int", func(c *ucfg.Config, n string, i int, o []ucfg.Option) { c.Int(n, i, o...) }},
		{"Uint", func(c *ucfg.Config, n string, i int, o []ucfg.Option) { c.Uint(n, i, o...) }},
		{"Float", func(c *ucfg.Config, n string, i int, o []ucfg.Option) { c.Float(n, i, o...) }},
		{"String", func(c *ucfg.Config, n string, i int, o []ucfg.Option) { c.String(n, i, o...) }},
		{"Child", func(c *ucfg.Config, n string, i int, o []ucfg.Option) { c.Child(n, i, o...) }},
		{"Has", func(c *ucfg.Config, n string, i int, o []ucfg.Option) { c.Has(n, i, o...) }},
		{"Remove", func(c *ucfg.Config, n string, i int, o []ucfg.Option) { c.Remove(n, i, o...) }},
		{"CountField", func(c *ucfg.Config, n string, i int, o []ucfg.Option) { c.CountField(n, o...) }},
		{"PathOf", func(c *ucfg.Config, n string, i int, o []ucfg.Option) { c.PathOf(n, "."); c.HasField(n) }},
		{"SetBool", func(c *ucfg.Config, n string, i int, o []ucfg.Option) { c.SetBool(n, i, true, o...) }},
		{"SetInt", func(c *ucfg.Config, n string, i int, o []ucfg.Option) { c.SetInt(n, i, 1, o...) }},
		{"SetUint", func(c *ucfg.Config, n string, i int, o []ucfg.Option) { c.SetUint(n, i, 1, o...) }},
		{"SetFloat", func(c *ucfg.Config, n string, i int, o []ucfg.Option) { c.SetFloat(n, i, 1, o...) }},
		{"SetString", func(c *ucfg.Config, n string, i int, o []ucfg.Option) { c.SetString(n, i, "v", o...) }},
		{"SetChild", func(c *ucfg.Config, n string, i int, o []ucfg.Option) {
			c.SetChild(n, i, mustCfg(M{"q": 1}), o...)
		}},
		{"SetChild(nil)", func(c *ucfg.Config, n string, i int, o []ucfg.Option) { c.SetChild(n, i, nil, o...) }},
		{"SetChild(zero Config)", func(c *ucfg.Config, n string, i int, o []ucfg.Option) { c.SetChild(n, i, &ucfg.Config{}, o...) }},
		{"Merge(key)", func(c *ucfg.Config, n string, i int, o []ucfg.Option) { c.Merge(M{n: i}, o...) }},
		{"Merge under FieldAppendValues(key.idx)", func(c *ucfg.Config, n string, i int, o []ucfg.Option) {
			// the option path is rendered into a tree of its own: a numeric component may not
			// allocate more slots there than the maximum index (given before it) allows either
			path := fmt.Sprint(i)
			if n != "" {
				path = fmt.Sprintf("%s.%d", n, i)
			}
			var m0, m1 runtime.MemStats
			runtime.ReadMemStats(&m0)
			c.Merge(M{"a": L{1}}, append(append([]ucfg.Option{}, o...), ucfg.FieldAppendValues(path))...)
			runtime.ReadMemStats(&m1)
			c07LastAlloc = int64(m1.TotalAlloc - m0.TotalAlloc)
		}},
		{"NewFrom(key)", func(c *ucfg.Config, n string, i int, o []ucfg.Option) {
			if nc, err := ucfg.NewFrom(M{n: M{n: i}}, o...); err == nil {
				var m map[string]interface{}
				nc.Unpack(&m, o...)
			}
		}},
	}
	radices := []int{len(ops), len(names), len(idxs), len(optSets), len(bases)}
	return &core.Space{
		Name: "addresses",
		Size: product(radices...),
		Text: func(i int) string {
			d := mixedRadix(i, radices...)
			return fmt.Sprintf("%s(%q, %d) with option set %d on base config %d", ops[d[0]].Name, names[d[1]], idxs[d[2]], d[3], d[4])
		},
		Exec: func(i int) core.Result {
			d := mixedRadix(i, radices...)
			var tooLong int
			c07LastAlloc = 0
			r := c07Wrap("address "+ops[d[0]].Name, func() {
				c := bases[d[4]]()
				ops[d[0]].Do(c, names[d[1]], idxs[d[2]], optSets[d[3]])
				if n := c20MaxList(c); int64(n) > maxIdxOf[d[3]]+1 {
					tooLong = n
					return
				}
				// the config is still usable
				var m map[string]interface{}
				c.Unpack(&m)
				c.FlattenedKeys()
			})
			if r.Viol == nil && tooLong > 0 {
				return core.Fail("address", "ALLOC@"+ops[d[0]].Name, fmt.Sprintf("a list of %d slots was allocated, the maximum index allows %d", tooLong, maxIdxOf[d[3]]+1))
			}
			// (a slot of the option tree costs about 160 bytes; everything else of the call stays far below 64 KiB)
			// (judged under the small maximum index only: up to the default limit the tree may grow)
			if limit := int64(64<<10) + 200*(maxIdxOf[d[3]]+1); r.Viol == nil && maxIdxOf[d[3]] < 1024 && c07LastAlloc > limit {
				return core.Fail("address", "ALLOC@"+ops[d[0]].Name, fmt.Sprintf("the call allocated %d bytes: more list slots than the maximum index %d allows (limit for this check %d bytes)", c07LastAlloc, maxIdxOf[d[3]], limit))
			}
			return r
		},
	}
}

// (e) unpack targets
type c07OddUnpack1 struct{ A int }

func (c *c07OddUnpack1) Unpack() error { return nil }

type c07OddUnpack2 struct{ A int }

func (c *c07OddUnpack2) Unpack(a, b int) error { return nil }

type c07OddUnpack3 struct{ A int }

func (c *c07OddUnpack3) Unpack(x interface{}) {}

type c07OddUnpack4 struct{ A int }

func (c c07OddUnpack4) Unpack(s string) error { return fmt.Errorf("no") }

type c07Recursive struct {
	A    int
	Next *c07Recursive
	Kids []c07Recursive
	M    map[string]c07Recursive
}

type c07Embedded struct {
	*c07OddUnpack1
	B int
}

type c07Iface interface{ Foo() }

type c07PanickyValidate struct{ A int }

func (c07PanickyValidate) Validate() error { return nil }

type c07Named string
type c07NamedSlice []c07Named
type c07NamedMap map[c07Named]int

func c07Targets() []func() interface{} {
	var nilIface interface{}
	var someIface interface{} = map[string]interface{}{}
	var nilStructPtr *struct{ A int }
	return []func() interface{}{
		func() interface{} { return new(chan int) },
		func() interface{} { return new(func()) },
		func() interface{} { return new(complex128) },
		func() interface{} { return new(uintptr) },
		func() interface{} { return new(unsafe.Pointer) },
		func() interface{} { return &map[int]int{} },
		func() interface{} { return &map[string]chan int{} },
		func() interface{} { return &map[string]func(){} },
		func() interface{} { return new([0]int) },
		func() interface{} { return new([2]int) },
		func() interface{} { return &nilIface },
		func() interface{} { return &someIface },
		func() interface{} { p := &struct{ A int }{}; return &p },
		func() interface{} { return struct{ A int }{} },
		func() interface{} { return nilStructPtr },
		func() interface{} { return nil },
		func() interface{} { return new(c07Iface) },
		func() interface{} { return &c07Embedded{} },
		func() interface{} { return &c07Recursive{} },
		func() interface{} { return &c07OddUnpack1{} },
		func() interface{} { return &c07OddUnpack2{} },
		func() interface{} { return &c07OddUnpack3{} },
		func() interface{} { return &c07OddUnpack4{} },
		func() interface{} { return &struct{ X c07OddUnpack1 }{} },
		func() interface{} { return &struct{ X c07OddUnpack2 }{} },
		func() interface{} { return &struct{ X c07OddUnpack3 }{} },
		func() interface{} { return &struct{ X c07OddUnpack4 }{} },
		func() interface{} { return &struct{ X *c07OddUnpack4 }{} },
		func() interface{} { return &struct{ A chan int }{} },
		func() interface{} { return &struct{ A func() }{} },
		func() interface{} { return &struct{ A complex64 }{} },
		func() interface{} { return &struct{ A unsafe.Pointer }{} },
		func() interface{} { return &struct{ A uintptr }{} },
		func() interface{} { return &struct{ A map[int]string }{} },
		func() interface{} { return &struct{ A [0]string }{} },
		func() interface{} { return &struct{ A **int }{} },
		func() interface{} { return &struct{ A ***struct{ B int } }{} },
		func() interface{} { return &struct{ A *interface{} }{} },
		func() interface{} { return &struct{ A c07Iface }{} },
		func() interface{} { return &struct{ A []chan int }{} },
		func() interface{} { return &struct{ A [][]map[string][]int }{} },
		func() interface{} { return &struct{ A map[string]map[string]*[]int }{} },
		func() interface{} { return &struct{ A *map[string]int }{} },
		func() interface{} { return &struct{ A *[]int }{} },
		func() interface{} { return &struct{ A *[2]int }{} },
		func() interface{} { return &struct{ A []*[]int }{} },
		func() interface{} { return &struct{ A map[string]*map[string]int }{} },
		func() interface{} { return &struct{ A map[string][2]int }{} },
		func() interface{} { return &struct{ A c07Named }{} },
		func() interface{} { return &struct{ A c07NamedSlice }{} },
		func() interface{} { return &struct{ A c07NamedMap }{} },
		func() interface{} { return &struct{ A *c07Named }{} },
		func() interface{} { return &struct{ A ucfg.Config }{} },
		func() interface{} { return &struct{ A *ucfg.Config }{} },
		func() interface{} { return &struct{ A []*ucfg.Config }{} },
		func() interface{} { return &struct{ A map[string]*ucfg.Config }{} },
		func() interface{} { return &struct{ A map[string]ucfg.Config }{} },
		func() interface{} { return &struct{ A c07PanickyValidate }{} },
		func() interface{} {
			return &struct {
				A int `config:",inline"`
			}{}
		},
		func() interface{} {
			return &struct {
				A []int `config:",inline"`
			}{}
		},
		func() interface{} {
			return &struct {
				A int `validate:"nosuchvalidator"`
			}{}
		},
		func() interface{} {
			return &struct {
				A int `validate:"min=abc"`
			}{}
		},
		func() interface{} {
			return &struct {
				A [2]int `validate:"required"`
			}{}
		},
		func() interface{} {
			return &struct {
				A [2]int `validate:"nonzero"`
			}{}
		},
		func() interface{} {
			return &struct {
				A map[string]int `validate:"required"`
				X []int          `validate:"nonzero,min=1"`
			}{}
		},
		func() interface{} { return &struct{ A ucfg.ConfigUnpacker }{} },
		func() interface{} { return &struct{ A ucfg.Unpacker }{} },
		func() interface{} { return &struct{ A ucfg.Validator }{} },
		func() interface{} { return &struct{ A, X ucfg.Initializer }{} },
		func() interface{} { var m *map[string]interface{}; return &m },
		func() interface{} { var m *[]interface{}; return &m },
		func() interface{} { var m **map[string]int; return &m },
		func() interface{} { return *mustCfg(M{"a": 1}) }, // a Config by value (as target and as merge source)
		func() interface{} { return struct{ A ucfg.Config }{A: *mustCfg(M{"a": 1})} },
		func() interface{} { return []ucfg.Config{*mustCfg(M{"a": 1})} },
		func() interface{} { return map[string]ucfg.Config{"a": *mustCfg(M{"a": 1})} },
		// pre-filled targets whose existing value is held by value in an interface or behind a pointer in a collection
		func() interface{} { return &struct{ A interface{} }{A: struct{ B int }{7}} },
		func() interface{} { return &struct{ A interface{} }{A: &struct{ B int }{7}} },
		func() interface{} { return &struct{ A interface{} }{A: [2]int{7, 7}} },
		func() interface{} { return &struct{ A interface{} }{A: &[2]int{7, 7}} },
		func() interface{} { return &struct{ A interface{} }{A: []int{9}} },
		func() interface{} { return &struct{ A interface{} }{A: map[string]int{"b": 1}} },
		func() interface{} {
			return &struct{ A interface{} }{A: map[string]interface{}{"b": struct{ X int }{1}}}
		},
		func() interface{} { return &struct{ A map[string]*[]int }{A: map[string]*[]int{"b": {9}}} },
		func() interface{} { return &struct{ A []*[]int }{A: []*[]int{{9}}} },
		func() interface{} { return &struct{ A [1]*[]int }{A: [1]*[]int{{9}}} },
		func() interface{} { return &struct{ A map[string][2]int }{A: map[string][2]int{"b": {7, 7}}} },
		func() interface{} {
			return &struct{ A map[string]interface{} }{A: map[string]interface{}{"b": struct{ X int }{1}, "x": [1]int{2}}}
		},
		func() interface{} { return &map[string]interface{}{"a": struct{ B int }{7}, "x": &struct{ A int }{1}} },
		func() interface{} { return &map[string]*[]int{"a": {9}} },
		func() interface{} { return &struct{ A *[2]int }{A: &[2]int{}} },
		func() interface{} { return &struct{ A **[]int }{A: func() **[]int { l := &[]int{1}; return &l }()} },
		func() interface{} { return &[]interface{}{} },
		func() interface{} { return &[]map[string]chan int{} },
		func() interface{} { return new(ucfg.Config) },
		func() interface{} { return new(*ucfg.Config) },
		func() interface{} { return &map[string]interface{}{"a": make(chan int)} },
		func() interface{} { return &map[string]interface{}{"a": &struct{ B func() }{}} },
		func() interface{} { return &struct{ a int }{} },
		func() interface{} { return new(int) },
		func() interface{} { return new(string) },
		// collections passed by value
		func() interface{} { var m map[string]interface{}; return m },
		func() interface{} { return map[string]interface{}{} },
		func() interface{} { var m map[string]int; return m },
		func() interface{} { var l []interface{}; return l },
		func() interface{} { return []interface{}{1} },
		func() interface{} { return [1]int{} },
		func() interface{} {
			return reflect.New(reflect.StructOf([]reflect.StructField{{Name: "A", Type: reflect.TypeOf(0), Tag: `config:"a.b.c"`}})).Interface()
		},
	}
}

// c07GenTargets: a field F of every carrier type (T, *T, **T, interface{} holding T, interface{}
// holding *T, []*T, map[string]*T, [1]*T, []**T, map[string]**T) over every kind of held value (lists, arrays, maps, struct, primitive), nil or
// pre-filled, as a named field that the configurations set, as an inlined field and as a named
// field they do not set.
func c07GenTargets() []func() interface{} {
	held := []func() reflect.Value{
		func() reflect.Value { return reflect.ValueOf([]int{9}) },
		func() reflect.Value { return reflect.ValueOf([1]int{9}) },
		func() reflect.Value { return reflect.ValueOf([2]int{9, 9}) },
		func() reflect.Value { return reflect.ValueOf(map[string]int{"b": 1}) },
		func() reflect.Value { return reflect.ValueOf(map[string]interface{}{"b": 1}) },
		func() reflect.Value { return reflect.ValueOf(struct{ A int }{7}) },
		func() reflect.Value { return reflect.ValueOf(7) },
		func() reflect.Value { return reflect.ValueOf([]interface{}{9}) },
	}
	tags := []string{`config:"a"`, `config:",inline"`, `config:"zz"`}
	var out []func() interface{}
	for hi := range held {
		for carrier := 0; carrier < 10; carrier++ {
			for filled := 0; filled < 2; filled++ {
				for _, tag := range tags {
					hi, carrier, filled, tag := hi, carrier, filled, tag
					out = append(out, func() interface{} {
						hv := held[hi]()
						T := hv.Type()
						ptrTo := func(v reflect.Value) reflect.Value {
							p := reflect.New(v.Type())
							p.Elem().Set(v)
							return p
						}
						tString := reflect.TypeOf("")
						var ft reflect.Type
						switch carrier {
						case 0:
							ft = T
						case 1:
							ft = reflect.PtrTo(T)
						case 2:
							ft = reflect.PtrTo(reflect.PtrTo(T))
						case 3, 4:
							ft = reflect.TypeOf((*interface{})(nil)).Elem()
						case 5: // collections of pointers
							ft = reflect.SliceOf(reflect.PtrTo(T))
						case 6:
							ft = reflect.MapOf(tString, reflect.PtrTo(T))
						case 7:
							ft = reflect.ArrayOf(1, reflect.PtrTo(T))
						case 8:
							ft = reflect.SliceOf(reflect.PtrTo(reflect.PtrTo(T)))
						case 9:
							ft = reflect.MapOf(tString, reflect.PtrTo(reflect.PtrTo(T)))
						}
						st := reflect.New(reflect.StructOf([]reflect.StructField{{Name: "F", Type: ft, Tag: reflect.StructTag(tag)}}))
						if filled == 1 {
							f := st.Elem().Field(0)
							switch carrier {
							case 0, 3:
								f.Set(hv)
							case 1, 4:
								f.Set(ptrTo(hv))
							case 2:
								f.Set(ptrTo(ptrTo(hv)))
							case 5, 8:
								e := ptrTo(hv)
								if carrier == 8 {
									e = ptrTo(e)
								}
								s := reflect.MakeSlice(ft, 1, 1)
								s.Index(0).Set(e)
								f.Set(s)
							case 6, 9:
								e := ptrTo(hv)
								if carrier == 9 {
									e = ptrTo(e)
								}
								m := reflect.MakeMap(ft)
								m.SetMapIndex(reflect.ValueOf("b"), e)
								m.SetMapIndex(reflect.ValueOf("0"), e)
								f.Set(m)
							case 7:
								f.Index(0).Set(ptrTo(hv))
							}
						}
						return st.Interface()
					})
				}
			}
		}
	}
	return out
}

func c07Unpack() *core.Space {
	targets := append(c07Targets(), c07GenTargets()...)
	cfgs := []func() (*ucfg.Config, []ucfg.Option){
		func() (*ucfg.Config, []ucfg.Option) { return mustCfg(M{"a": M{"b": 1, "x": "s"}, "x": M{"a": 1}}), nil },
		func() (*ucfg.Config, []ucfg.Option) { return mustCfg(M{"a": L{1, 2}, "x": L{M{"a": 1}}}), nil },
		func() (*ucfg.Config, []ucfg.Option) { return mustCfg(L{M{"a": 1}, "s"}), nil },
		func() (*ucfg.Config, []ucfg.Option) { return mustCfg(M{"a": "prim", "x": 5}), nil },
		func() (*ucfg.Config, []ucfg.Option) { return mustCfg(M{"a": nil, "x": nil}), nil },
		func() (*ucfg.Config, []ucfg.Option) {
			o := []ucfg.Option{ucfg.VarExp, ucfg.PathSep(".")}
			return mustCfg(M{"a": "${x}", "x": M{"a": "${a}"}}, o...), o
		},
		func() (*ucfg.Config, []ucfg.Option) { return ucfg.New(), nil },
		func() (*ucfg.Config, []ucfg.Option) { return nil, nil },
		func() (*ucfg.Config, []ucfg.Option) {
			return mustCfg(M{"a": M{"a": M{"a": M{"next": M{"next": M{"a": 1}}, "kids": L{M{"kids": L{M{}}}}}}}, "next": M{"next": M{"a": 2}}}), nil
		},
	}
	radices := []int{len(targets), len(cfgs)}
	return &core.Space{
		Name: "unpack-targets",
		Size: product(radices...),
		Text: func(i int) string {
			d := mixedRadix(i, radices...)
			t := targets[d[0]]()
			return fmt.Sprintf("Unpack into %T (target #%d) from config #%d", t, d[0], d[1])
		},
		Exec: func(i int) core.Result {
			d := mixedRadix(i, radices...)
			return c07Wrap("unpack-target", func() {
				c, opts := cfgs[d[1]]()
				t := targets[d[0]]()
				c.Unpack(t, opts...)
				// and as merge source
				if c != nil {
					ucfg.New().Merge(t, opts...)
					ucfg.NewFrom(t, opts...)
				}
			})
		},
	}
}

type c07RecA struct {
	A, B, X, K *c07RecA
	O          map[string]*c07RecA
	L          []c07RecA
}

type c07RecM struct {
	A, B, O, L map[string]c07RecM
}

// (g) reference cycles x typed targets: every cyclic (and some diamond-shaped) reference structure
// read through every kind of reader; a cycle must end in an error (or a value), never in a hang or
// a stack overflow.
func c07Cycles() *core.Space {
	cfgs := []M{
		{"a": "${a}"},
		{"a": "${b}", "b": "${a}"},
		{"a": "${b}", "b": "${c}", "c": "${a}"},
		{"a": "${b}", "b": L{"${a}"}},
		{"a": L{"${a}"}},
		{"a": "${o.x}", "o": M{"x": "${a}"}},
		{"a": "${l.0}", "l": L{"${a}"}},
		{"a": "x${a}"},
		{"a": "${b:${a}}"},
		{"a": "${a.x}"},
		{"a": "${o}", "o": M{"x": "${a}"}},
		{"a": "${l}", "b": "${l}", "l": L{"x", "y"}},
		{"a": "${a:+${a}}"},
		{"a": "${b}", "b": "${a:d}"},
		{"a": L{"${b}"}, "b": L{"${a}"}},
		{"a": "${b}", "b": M{"x": "${b}"}},
		{"a": "${o}", "o": M{"k": "${a}"}},
		{"a": M{"k": "${a}"}},
		{"a": "${l}", "l": L{M{"a": "${l}"}}},
		{"a": M{"b": "${o}"}, "o": M{"a": "${a}"}},
	}
	// a chain of references that runs into a cycle further down (the setting read is not part of it):
	// tail of 1..3 links, cycle of 1..3 settings, plain links and links inside a text
	for tail := 1; tail <= 3; tail++ {
		for cyc := 1; cyc <= 3; cyc++ {
			for _, form := range []string{"${%s}", "x${%s}"} {
				m := M{}
				names := []string{"a", "t1", "t2"}[:tail]
				for c := 0; c < cyc; c++ {
					names = append(names, fmt.Sprintf("c%d", c))
				}
				for n := 0; n < len(names); n++ {
					next := n + 1
					if next == len(names) {
						next = tail
					}
					f := "${%s}"
					if n == tail-1 {
						f = form
					}
					m[names[n]] = fmt.Sprintf(f, names[next])
				}
				cfgs = append(cfgs, m)
			}
		}
	}
	type two struct{ A, B []string }
	targets := []func() interface{}{
		func() interface{} { return &struct{ A string }{} },
		func() interface{} { return &struct{ A []string }{} },
		func() interface{} { return &struct{ A [1]string }{} },
		func() interface{} { return &struct{ A [][]string }{} },
		func() interface{} { return &struct{ A map[string]string }{} },
		func() interface{} { return &struct{ A map[string][]string }{} },
		func() interface{} { return &struct{ A interface{} }{} },
		func() interface{} { return &struct{ A []interface{} }{} },
		func() interface{} { return &struct{ A *ucfg.Config }{} },
		func() interface{} { return &struct{ A int }{} },
		func() interface{} { return &two{} },
		func() interface{} { return &map[string][]string{} },
		func() interface{} { return &map[string]interface{}{} },
		func() interface{} { return &struct{ A []int }{} },
		func() interface{} { return &struct{ A *[]string }{} },
		func() interface{} { return &struct{ A struct{ X []string } }{} },
		// recursive target types: the configuration, not the type, has to end the recursion
		func() interface{} { return &c07RecA{} },
		func() interface{} { return &c07RecM{} },
	}
	optSets := [][]ucfg.Option{{ucfg.VarExp, ucfg.PathSep(".")}, {ucfg.VarExp}, {ucfg.VarExp, ucfg.PathSep("."), ucfg.ResolveNOOP}}
	radices := []int{len(cfgs), len(targets), len(optSets)}
	return &core.Space{
		Name: "reference-cycles-x-targets",
		Size: product(radices...),
		Text: func(i int) string {
			d := mixedRadix(i, radices...)
			return fmt.Sprintf("config %v (option set %d) unpacked into %T, then getters and FlattenedKeys", cfgs[d[0]], d[2], targets[d[1]]())
		},
		Exec: func(i int) core.Result {
			d := mixedRadix(i, radices...)
			return c07Wrap("cycles", func() {
				opts := optSets[d[2]]
				c, err := ucfg.NewFrom(cfgs[d[0]], opts...)
				if err != nil {
					return
				}
				c.Unpack(targets[d[1]](), opts...)
				for _, k := range []string{"a", "b", "o", "l"} {
					c.String(k, -1, opts...)
					c.Int(k, -1, opts...)
					c.Child(k, -1, opts...)
					c.String(k, 0, opts...)
					c.CountField(k, opts...)
				}
				c.FlattenedKeys(opts...)
				c.Has("a.x", -1, opts...)
			})
		},
	}
}

// (h) overlapping definitions in one input: ordered pairs and triples of entries whose keys reach
// into each other (dotted names, index segments) with scalar, null, list and object values - the
// input may be rejected as a duplicate, it must not crash.
func c07Overlaps(maxEntries int) *core.Space {
	keys := []string{"a", "a.0", "a.1", "a.b", "a.0.b", "a.1.0"}
	vals := []interface{}{1, nil, L{1}, L{nil, 2, 3}, M{"b": 1}, M{"0": 1}, L{L{1}, L{2}, L{3}}, L{M{"b": 1}, M{"c": 2}}}
	ne := len(keys) * len(vals)
	size := ne * ne
	if maxEntries >= 3 {
		size += ne * ne * ne
	}
	dec := func(i int) []int {
		if i < ne*ne {
			return []int{i / ne, i % ne}
		}
		i -= ne * ne
		return []int{i / (ne * ne), (i / ne) % ne, i % ne}
	}
	return &core.Space{
		Name: fmt.Sprintf("overlapping-definitions<=%d-entries", maxEntries),
		Size: size,
		Text: func(i int) string {
			s := ""
			for _, e := range dec(i) {
				s += fmt.Sprintf(" %q: %v;", keys[e/len(vals)], vals[e%len(vals)])
			}
			return "NewFrom/Merge of the ordered entries {" + s + " } with PathSep(\".\")"
		},
		Exec: func(i int) core.Result {
			es := dec(i)
			return c07Wrap("overlaps", func() {
				var fields []reflect.StructField
				for k, e := range es {
					fields = append(fields, reflect.StructField{Name: fmt.Sprintf("F%d", k), Type: tIface, Tag: reflect.StructTag(fmt.Sprintf(`config:"%s"`, keys[e/len(vals)]))})
				}
				st := reflect.New(reflect.StructOf(fields)).Elem()
				for k, e := range es {
					if v := vals[e%len(vals)]; v != nil {
						st.Field(k).Set(reflect.ValueOf(v))
					}
				}
				for _, opts := range [][]ucfg.Option{{ucfg.PathSep(".")}, {ucfg.PathSep("."), ucfg.AppendValues}, nil} {
					c, err := ucfg.NewFrom(st.Interface(), opts...)
					if err != nil {
						continue
					}
					var m map[string]interface{}
					c.Unpack(&m, opts...)
					c.FlattenedKeys(opts...)
					c.Merge(st.Interface(), opts...)
				}
			})
		},
	}
}

// (i) single odd calls that do not fit the product spaces
func c07OddCalls() *core.Space {
	type oc struct {
		name string
		run  func()
	}
	cases := []oc{
		{"SetInt(\"\", MaxInt64, 1, MaxIdx(MaxInt64)): the index plus one overflows", func() {
			ucfg.New().SetInt("", math.MaxInt64, 1, ucfg.MaxIdx(math.MaxInt64))
		}},
		{"NewFrom({\"a.9223372036854775807\": 1}, PathSep, MaxIdx(MaxInt64))", func() {
			ucfg.NewFrom(M{"a.9223372036854775807": 1}, ucfg.PathSep("."), ucfg.MaxIdx(math.MaxInt64))
		}},
		{"a config attached below itself: c.SetChild(\"a\", -1, c), then Path/FlattenedKeys/Unpack", func() {
			c := mustCfg(M{"x": 1})
			c.SetChild("a", -1, c)
			c.Path(".")
			c.FlattenedKeys()
			var m map[string]interface{}
			c.Unpack(&m)
		}},
		{"a config attached below its own child: ch := c.Child(a); ch.SetChild(\"up\", -1, c), then reads", func() {
			c := mustCfg(M{"a": M{"x": 1}})
			ch := mustChild(c, "a", -1)
			ch.SetChild("up", -1, c)
			ch.Path(".")
			c.Path(".")
			c.FlattenedKeys()
			var m map[string]interface{}
			c.Unpack(&m)
		}},
		{"two removals, then a write at the old last position of the list, then every read", func() {
			for _, top := range []bool{false, true} {
				var c *ucfg.Config
				name := "l"
				if top {
					c, name = mustCfg(L{"a", "b", "c"}), ""
				} else {
					c = mustCfg(M{"l": L{"a", "b", "c"}})
				}
				c.Remove(name, 0)
				c.Remove(name, 0)
				c.SetString(name, 2, "x")
				var m map[string]interface{}
				c.Unpack(&m)
				var l []interface{}
				c.Unpack(&l)
				c.FlattenedKeys()
				c.Has(name, 1)
				c.String(name, 1)
				ucfg.NewFrom(c)
				ucfg.New().Merge(c, ucfg.AppendValues)
				c.Remove(name, 1)
			}
		}},
		{"a regexp.Regexp held by value in a map / struct / slice as merge source", func() {
			ucfg.New().Merge(M{"r": *regexp.MustCompile("a")})
			ucfg.New().Merge(struct{ R regexp.Regexp }{*regexp.MustCompile("a")})
			ucfg.NewFrom([]regexp.Regexp{*regexp.MustCompile("a")})
			ucfg.NewFrom(map[string]regexp.Regexp{"k": *regexp.MustCompile("a")})
		}},
		{"a time.Duration / *regexp.Regexp behind interfaces and pointers as merge source", func() {
			d := 3 * time.Second
			pd := &d
			ucfg.New().Merge(M{"d": &pd, "r": regexp.MustCompile("a"), "n": (*regexp.Regexp)(nil), "z": (*time.Duration)(nil)})
		}},
	}
	return &core.Space{
		Name: "odd-calls",
		Size: len(cases),
		Text: func(i int) string { return cases[i].name },
		Exec: func(i int) core.Result { return c07Wrap("odd-call", cases[i].run) },
	}
}

// (f) the lexer goroutine and the parser under the scheduler: every interleaving of their
// channel operations (send, receive, range, close, the non-blocking select) - no bound.
func c07Lexer(maxLen int) *core.Space { return c07LexerP(maxLen, []string{""}) }

// strings that make the parser fail early while the lexer still has tokens to deliver
func c07LexerPrefixed(maxLen int) *core.Space { return c07LexerP(maxLen, []string{"${}", "${:a}"}) }

func c07LexerP(maxLen int, prefixes []string) *core.Space {
	base := stringsOver(c07VarSigma, maxLen)
	nb := countStrings(len(c07VarSigma), maxLen)
	str := func(i int) string { return prefixes[i/nb] + base(i%nb) }
	n := nb * len(prefixes)
	return &core.Space{
		Name:        fmt.Sprintf("lexer-parser-interleavings-%q+strings<=%d", prefixes, maxLen),
		Size:        n,
		CaseTimeout: 120e9,
		Text: func(i int) string {
			return fmt.Sprintf("NewFrom({k: %q}, VarExp): lexer goroutine || parser, all schedules", str(i))
		},
		Exec: func(i int) core.Result {
			s := str(i)
			sched.ChanOnly = true
			defer func() { sched.ChanOnly = false }()
			ex := &sched.Explorer{Bound: -1, MaxExec: 5000, MaxTime: 75 * time.Second}
			outcomes := map[string][]int{}
			var viol *core.Violation
			var out string
			scenario := func(prefix []int) *sched.Execution {
				out = ""
				return sched.Run(prefix, []func(){func() {
					out = guarded(func() string {
						c, err := ucfg.NewFrom(M{"k": s}, ucfg.VarExp)
						if err != nil {
							return "error: " + firstLine(err.Error())
						}
						v, err := c.String("k", -1, ucfg.VarExp)
						return fmt.Sprintf("ok: %q %v", v, err != nil)
					})
				}})
			}
			check := func(x *sched.Execution) bool {
				switch {
				case x.Timeout:
					return true
				case x.Deadlock:
					viol = &core.Violation{Sub: "lexer", Sig: "LEAK-OR-DEADLOCK@lexer", Detail: fmt.Sprintf("schedule %v: the parser returned %q but a goroutine of the library is blocked forever", x.Choices, out)}
				case len(x.Panics) > 0:
					viol = &core.Violation{Sub: "lexer", Sig: "PANIC-UNDER-SCHEDULE " + lastSeg(x.Panics[0]), Detail: fmt.Sprintf("schedule %v: %s", x.Choices, x.Panics[0])}
				}
				if viol != nil {
					return false
				}
				if _, ok := outcomes[out]; !ok {
					outcomes[out] = append([]int{}, x.Choices...)
				}
				if len(outcomes) > 1 {
					var parts []string
					for o, c := range outcomes {
						parts = append(parts, fmt.Sprintf("schedule %v => %s", c, o))
					}
					sort.Strings(parts)
					viol = &core.Violation{Sub: "lexer", Sig: "SCHEDULE-DEPENDENT-PARSE", Detail: strings.Join(parts, " || ")}
					return false
				}
				return true
			}
			var failing []int
			if vec, replaying := core.ReplayChoices(); replaying {
				check(scenario(nil))
				check(scenario(vec))
				failing = vec
			} else {
				ex.Explore(scenario, func(x *sched.Execution) bool {
					ok := check(x)
					if !ok {
						failing = append([]int{}, x.Choices...)
					}
					return ok
				})
			}
			if viol != nil {
				viol.Choices = failing
			}
			res := core.Result{Trans: ex.Executions, States: len(outcomes), Nontrivial: ex.Executions > 1, Extra: map[string]int{"schedules": ex.Executions}}
			if ex.Capped {
				res.Extra["scenarios_capped"] = 1
			}
			res.Viol = viol
			return res
		},
	}
}

func init() {
	core.Register(&core.Check{
		ID:    "C07",
		Level: "exploration",
		Rule:  "totality in isolated workers: (a) every string of length <=4 (thorough <=5) over 14 grammar characters through parse.Value and ValueWithConfig under all 32 configs; (b) every string of length <=5 (thorough <=6) over {$ { } : + ? a .} stored as a setting under VarExp (6 option sets incl. ResolveEnv/ResolveNOOP, a resolver answering every name with the empty string, a resolver answering with objects and lists) and read through String, Int, Child, Unpack into map and struct, FlattenedKeys, Has, CountField, Remove; (c) every byte string of length <=3 (thorough <=4) over 16 significant bytes per format plus every prefix, single-byte deletion and single-byte substitution of three seed documents per format through the YAML/JSON/HJSON loaders and Unpack/FlattenedKeys; (d) 18 getters/setters/Has/Remove/Child/CountField/Merge/NewFrom x 24 names (empty, dotted, double dots, negative, huge, hex, bracketed) x 12 indices (MinInt64 .. MaxInt64) x 5 option sets x 5 base configs, with the list-length bound checked on the private state; (f) for every string of length <=4 (thorough <=5) of (b) the lexer goroutine and the parser run under the cooperative scheduler with goroutine start and channel send/receive/range/close/select as scheduling points - all interleavings, no bound: same parse outcome on every schedule, both terminate, no deadlock or leaked goroutine; (e) ~88 unpack/merge targets incl. pre-filled values held by value in interfaces or behind pointers inside collections, unsupported kinds (chan, func, complex, uintptr, unsafe.Pointer, non-string map keys, zero-length arrays, nil and non-nil *interface{}, multiple pointers, non-pointer, nil, interfaces with methods, embedded pointers, recursive types, odd Unpack signatures, bad tags) x 9 configs; (g) 16 cyclic or diamond-shaped reference structures (self, rings of 2 and 3, through lists, objects, path walks, defaults and alternates) x 16 typed targets (string, slices, arrays, maps of slices, interface{}, *Config, two slice fields) x 3 option sets, followed by every getter; (h) every ordered pair and triple of entries over 6 mutually overlapping keys (a, a.0, a.1, a.b, a.0.b, a.1.0) x 8 values (scalar, null, lists shorter and longer, objects, nested lists) given through struct field order to NewFrom/Merge with and without PathSep. Oracle: every call returns, no panic, no worker death (stack overflow, OOM under a 2 GiB address-space limit, hang > 10 s), every goroutine started by the library has finished, no list part longer than MaxIdx+1; non-trivial = every executed case; plus every sequence of up to 3 (thorough: 4) SetChild calls among three configs at three addresses followed by every read entry point on every config; plus reference chains that run into a cycle further down (tails 1-3, cycles 1-3) x the target types",
		Assumptions: []string{
			"short strings over format-specific alphabets and single-edit neighbours of seed documents, not long adversarial inputs",
			"goroutine accounting through the `go` hook of the overlay (start/finish counters)",
		},
		Spaces: func(tier string) []*core.Space {
			if tier == "thorough" {
				return []*core.Space{c07Unpack(), c07OddCalls(), c07Cycles(), c07SetChildGraphs(4), c07Overlaps(3), c07Addresses(), c07Parse(5), c07VarExp(6, []string{""}), c07VarExp(5, []string{"${}", "${:a}", "a${a.${}"}), c07Loaders(4), c07Lexer(5), c07LexerPrefixed(4)}
			}
			return []*core.Space{c07Unpack(), c07OddCalls(), c07Cycles(), c07SetChildGraphs(3), c07Overlaps(3), c07Addresses(), c07Parse(4), c07VarExp(5, []string{""}), c07VarExp(4, []string{"${}", "${:a}", "a${a.${}"}), c07Loaders(3), c07Lexer(4), c07LexerPrefixed(3)}
		},
	})
}
