package checks

import (
	"fmt"
	"strings"

	ucfg "github.com/elastic/go-ucfg"

	"verif/internal/core"
	"verif/internal/fp"
	"verif/internal/tree"
)

// C10: Merge copies. For every (source S, carrier, destination D, policy) the
// Exact fingerprint of the whole graph reachable from S, S.Path, S.Parent and the
// way S unpacks are identical before and after D.Merge(carrier(S)); afterwards,
// for every sequence of further writes on one side, the other side's fingerprint
// and unpacked data are unchanged.

type c10Source struct {
	Name  string
	Build func() (s *ucfg.Config, keep interface{}) // keep: anything that must stay alive / be fingerprinted with S
	Opts  []ucfg.Option
}

var c10Opts = []ucfg.Option{ucfg.PathSep("."), ucfg.VarExp}

func mustCfg(v interface{}, opts ...ucfg.Option) *ucfg.Config {
	c, err := ucfg.NewFrom(v, opts...)
	if err != nil {
		panic("harness: " + err.Error())
	}
	return c
}

func mustChild(c *ucfg.Config, name string, idx int) *ucfg.Config {
	ch, err := c.Child(name, idx, ucfg.PathSep("."))
	if err != nil {
		panic("harness: " + err.Error())
	}
	return ch
}

type M = map[string]interface{}
type L = []interface{}

var c10Sources = []c10Source{
	{"flat-dict", func() (*ucfg.Config, interface{}) { return mustCfg(M{"a": 1, "b": "x"}), nil }, nil},
	{"nested-dict", func() (*ucfg.Config, interface{}) {
		return mustCfg(M{"a": M{"b": M{"c": 1}}, "l": L{1, 2}}), nil
	}, nil},
	{"list-of-dicts", func() (*ucfg.Config, interface{}) { return mustCfg(L{M{"x": 1}, M{"y": 2}}), nil }, nil},
	{"references", func() (*ucfg.Config, interface{}) {
		return mustCfg(M{"r": "${a}", "s": "pre-${a}", "a": "v", "o": M{"k": "${a}"}}, c10Opts...), nil
	}, c10Opts},
	{"with-metadata", func() (*ucfg.Config, interface{}) {
		return mustCfg(M{"a": M{"b": 1}, "l": L{M{"x": 1}}}, ucfg.MetaData(ucfg.Meta{Source: "file.yml"})), nil
	}, nil},
	{"child-handle", func() (*ucfg.Config, interface{}) {
		big := mustCfg(M{"p": M{"a": M{"b": 1}, "l": L{M{"x": 1}}}, "other": 1})
		return mustChild(big, "p", -1), big
	}, nil},
	{"list-element-handle", func() (*ucfg.Config, interface{}) {
		big := mustCfg(M{"p": L{M{"a": M{"b": 1}}, M{"x": 2}}})
		return mustChild(big, "p", 0), big
	}, nil},
	{"after-remove", func() (*ucfg.Config, interface{}) {
		c := mustCfg(M{"a": M{"b": 1, "gone": 2}, "l": L{1, 2, 3}, "x": M{"only": 1}})
		c.Remove("a.gone", -1, ucfg.PathSep("."))
		c.Remove("l", 0, ucfg.PathSep("."))
		c.Remove("x.only", -1, ucfg.PathSep("."))
		return c, nil
	}, nil},
	{"child-with-references", func() (*ucfg.Config, interface{}) {
		big := mustCfg(M{"name": "n", "o": M{"id": "${name}", "l": L{"${name}"}}}, c10Opts...)
		return mustChild(big, "o", -1), big
	}, c10Opts},
	{"nil-and-empty", func() (*ucfg.Config, interface{}) {
		return mustCfg(M{"a": nil, "e": M{}, "l": L{}, "b": M{"n": nil}}), nil
	}, nil},
}

type c10Carrier struct {
	Name   string
	Wrap   func(s *ucfg.Config) interface{}
	Prefix string // where S's content lands in D
	Opts   []ucfg.Option
}

// carriers in which further keys of the same input reach into the embedded Config
type carrierDottedAfter struct {
	C *ucfg.Config `config:"k"`
	X int          `config:"k.zz9"`
}
type carrierDottedBefore struct {
	X int          `config:"k.zz9"`
	C *ucfg.Config `config:"k"`
}
type carrierDeepAfter struct {
	C *ucfg.Config `config:"k"`
	X int          `config:"k.a.zz9"`
	Y int          `config:"k.l.0.zz9"`
	Z int          `config:"k.0.zz9"`
}
type carrierSameName struct {
	C *ucfg.Config           `config:"k"`
	M map[string]interface{} `config:"k"`
}

type carrierPtr struct{ C *ucfg.Config }
type carrierVal struct{ C ucfg.Config }
type carrierNested struct {
	K struct {
		J *ucfg.Config
	}
}

var c10Carriers = []c10Carrier{
	{"direct", func(s *ucfg.Config) interface{} { return s }, "", nil},
	{"map{k:S}", func(s *ucfg.Config) interface{} { return M{"k": s} }, "k.", nil},
	{"map{k:{j:S}}", func(s *ucfg.Config) interface{} { return M{"k": M{"j": s}} }, "k.j.", nil},
	{"map{k:[S]}", func(s *ucfg.Config) interface{} { return M{"k": L{s}} }, "k.0.", nil},
	{"struct{C *Config}", func(s *ucfg.Config) interface{} { return carrierPtr{s} }, "c.", nil},
	{"struct{C Config}", func(s *ucfg.Config) interface{} { return carrierVal{*s} }, "c.", nil},
	{"map[string]*Config", func(s *ucfg.Config) interface{} { return map[string]*ucfg.Config{"k": s} }, "k.", nil},
	{"[]*Config", func(s *ucfg.Config) interface{} { return M{"k": []*ucfg.Config{s, s}} }, "k.1.", nil},
	{"struct{C *Config `k`; X int `k.zz9`}", func(s *ucfg.Config) interface{} { return carrierDottedAfter{s, 5} }, "k.", []ucfg.Option{ucfg.PathSep(".")}},
	{"struct{X int `k.zz9`; C *Config `k`}", func(s *ucfg.Config) interface{} { return carrierDottedBefore{5, s} }, "k.", []ucfg.Option{ucfg.PathSep(".")}},
	{"struct{C *Config `k`; X,Y,Z int `k.a.zz9`,`k.l.0.zz9`,`k.0.zz9`}", func(s *ucfg.Config) interface{} { return carrierDeepAfter{s, 5, 6, 7} }, "k.", []ucfg.Option{ucfg.PathSep(".")}},
	{"struct{C *Config `k`; M map `k`}", func(s *ucfg.Config) interface{} {
		return carrierSameName{s, M{"zz9": 1, "a": M{"zz9": 2}}}
	}, "k.", nil},
	{"map{k:S, k.zz9:5, k.a.zz9:6}", func(s *ucfg.Config) interface{} { return M{"k": s, "k.zz9": 5, "k.a.zz9": 6} }, "k.", []ucfg.Option{ucfg.PathSep(".")}},
	// other ways of handing a Config over directly
	{"Config by value (direct)", func(s *ucfg.Config) interface{} { return *s }, "", nil},
	{"**Config (direct)", func(s *ucfg.Config) interface{} { return &s }, "", nil},
	{"rebranded *MyCfg (direct)", func(s *ucfg.Config) interface{} { return (*c10MyCfg)(s) }, "", nil},
	{"rebranded MyCfg by value (direct)", func(s *ucfg.Config) interface{} { return *(*c10MyCfg)(s) }, "", nil},
	{"map{k: rebranded *MyCfg}", func(s *ucfg.Config) interface{} { return M{"k": (*c10MyCfg)(s)} }, "k.", nil},
}

type c10MyCfg ucfg.Config

var c10Dests = []struct {
	Name  string
	Build func() *ucfg.Config
}{
	{"empty", func() *ucfg.Config { return ucfg.New() }},
	{"disjoint", func() *ucfg.Config { return mustCfg(M{"zz": 1}) }},
	{"overlap-containers", func() *ucfg.Config {
		return mustCfg(M{"a": M{"b": M{"d": 2}}, "l": L{9}, "k": M{"a": M{"x": 1}, "j": M{"a": M{"x": 1}}, "0": M{"a": 1}}, "c": M{"a": M{"q": 1}, "l": L{M{"x": 3}}}, "o": M{"z": 1}})
	}},
	{"overlap-primitives", func() *ucfg.Config { return mustCfg(M{"a": 1, "l": 2, "k": 3, "c": 4, "x": 5, "o": 6, "p": 7}) }},
}

// write operations applied after the merge
type c10Op struct {
	Name string
	Do   func(c *ucfg.Config, prefix string) // errors are irrelevant (an op that fails changes nothing)
}

var c10Paths = []string{"a", "a.b", "a.b.c", "a.w", "l", "l.0", "l.1", "l.0.w", "x", "x.w", "0", "0.x", "0.w", "1", "r", "o", "o.k", "o.l.0", "b", "b.n", "b.w", "e", "e.w", "new"}

func buildC10Ops() []c10Op {
	ps := ucfg.PathSep(".")
	var ops []c10Op
	for _, p := range c10Paths {
		p := p
		ops = append(ops,
			c10Op{"SetString(" + p + ")", func(c *ucfg.Config, pre string) { c.SetString(pre+p, -1, "W", ps) }},
			c10Op{"Remove(" + p + ")", func(c *ucfg.Config, pre string) { c.Remove(pre+p, -1, ps) }},
		)
	}
	for _, p := range []string{"a", "a.b", "l", "l.0", "o", "0", "b", "e", "x"} {
		p := p
		ops = append(ops, c10Op{"Child(" + p + ").SetInt(w)", func(c *ucfg.Config, pre string) {
			if ch, err := c.Child(pre+p, -1, ps); err == nil {
				ch.SetInt("w", -1, 7)
			}
		}}, c10Op{"Child(" + p + ").SetInt(idx0)", func(c *ucfg.Config, pre string) {
			if ch, err := c.Child(pre+p, -1, ps); err == nil {
				ch.SetInt("", 0, 7)
			}
		}})
	}
	for _, pol := range []tree.Policy{tree.Default, tree.Append, tree.Replace} {
		pol := pol
		ops = append(ops, c10Op{"Merge(small," + pol.String() + ")", func(c *ucfg.Config, pre string) {
			var src interface{} = M{"a": M{"b": M{"c": 9, "n": 1}}, "l": L{7}, "o": M{"k": "z"}, "x": 5}
			segs := strings.Split(strings.TrimSuffix(pre, "."), ".")
			if pre != "" {
				for i := len(segs) - 1; i >= 0; i-- {
					src = M{segs[i]: src}
				}
			}
			c.Merge(src, append([]ucfg.Option{ps}, policyOpt[pol]...)...)
		}})
	}
	ops = append(ops, c10Op{"SetChild(sub,{q:1})", func(c *ucfg.Config, pre string) {
		c.SetChild(pre+"sub", -1, mustCfg(M{"q": 1}), ps)
	}})
	return ops
}

type c10Snap struct {
	fpS    string
	path   string
	parent *ucfg.Config
	data   string
	dataE  string
}

func c10Snapshot(s *ucfg.Config, keep interface{}, opts []ucfg.Option) c10Snap {
	sn := c10Snap{fpS: fp.Of(fp.Exact, s, keep), path: s.Path("."), parent: s.Parent()}
	var m map[string]interface{}
	err := s.Unpack(&m, opts...)
	sn.data, sn.dataE = tree.CanonGoOpt(m, true), errString(err)
	var l []interface{}
	if s.IsArray() {
		err = s.Unpack(&l, opts...)
		sn.data += " / " + tree.CanonGoOpt(l, true)
		sn.dataE += " / " + errString(err)
	}
	return sn
}

func (a c10Snap) diff(b c10Snap) string {
	switch {
	case a.path != b.path:
		return fmt.Sprintf("Path() changed from %q to %q", a.path, b.path)
	case a.parent != b.parent:
		return "Parent() changed"
	case a.data != b.data || a.dataE != b.dataE:
		return fmt.Sprintf("unpacked data changed from %s (%s) to %s (%s)", a.data, a.dataE, b.data, b.dataE)
	case a.fpS != b.fpS:
		return "internal state changed: " + firstDiff(a.fpS, b.fpS)
	}
	return ""
}

func firstDiff(a, b string) string {
	i := 0
	for i < len(a) && i < len(b) && a[i] == b[i] {
		i++
	}
	lo := i - 60
	if lo < 0 {
		lo = 0
	}
	end := func(s string) string {
		hi := i + 60
		if hi > len(s) {
			hi = len(s)
		}
		return s[lo:hi]
	}
	return fmt.Sprintf("before …%s… after …%s…", end(a), end(b))
}

func c10Space(name string, seqLen int) *core.Space {
	ops := buildC10Ops()
	nS, nC, nD, nP := len(c10Sources), len(c10Carriers), len(c10Dests), len(allPolicies)
	nOps := len(ops) + 1 // 0 = no further op
	radices := []int{nS, nC, nD, nP, 2}
	for i := 0; i < seqLen; i++ {
		radices = append(radices, nOps)
	}
	type cs struct {
		src  c10Source
		car  c10Carrier
		dst  int
		pol  tree.Policy
		side int
		seq  []int
	}
	dec := func(i int) cs {
		d := mixedRadix(i, radices...)
		c := cs{src: c10Sources[d[0]], car: c10Carriers[d[1]], dst: d[2], pol: allPolicies[d[3]], side: d[4]}
		for k := 0; k < seqLen; k++ {
			c.seq = append(c.seq, d[5+k])
		}
		return c
	}
	seqText := func(c cs) string {
		var s []string
		for _, o := range c.seq {
			if o > 0 {
				s = append(s, ops[o-1].Name)
			}
		}
		side := "destination"
		if c.side == 1 {
			side = "source"
		}
		if len(s) == 0 {
			return "no further writes"
		}
		return "then on the " + side + ": " + strings.Join(s, " ; ")
	}
	return &core.Space{
		Name: name,
		Size: product(radices...),
		Text: func(i int) string {
			c := dec(i)
			md := ""
			if c.dst%2 == 1 {
				md = " MetaData{merge.yml}"
			}
			return fmt.Sprintf("source=%s carrier=%s destination=%s policy=%s%s %s", c.src.Name, c.car.Name, c10Dests[c.dst].Name, c.pol, md, seqText(c))
		},
		Exec: func(i int) core.Result {
			c := dec(i)
			// canonical form: op sequences are explored with trailing no-ops only
			for k := 0; k+1 < len(c.seq); k++ {
				if c.seq[k] == 0 && c.seq[k+1] != 0 {
					return core.Result{Skipped: true}
				}
			}
			noOps := true
			for _, o := range c.seq {
				noOps = noOps && o == 0
			}
			if noOps && c.side == 1 {
				return core.Result{Skipped: true}
			}
			var res core.Result
			pi := core.Guard(func() {
				s, keep := c.src.Build()
				d := c10Dests[c.dst].Build()
				before := c10Snapshot(s, keep, c.src.Opts)
				mopts := append([]ucfg.Option{}, c.src.Opts...)
				mopts = append(mopts, policyOpt[c.pol]...)
				mopts = append(mopts, c.car.Opts...)
				if c.dst%2 == 1 {
					// (every other destination: the merge names a source file for the settings it copies)
					mopts = append(mopts, ucfg.MetaData(ucfg.Meta{Source: "merge.yml"}))
				}
				err := d.Merge(c.car.Wrap(s), mopts...)
				after := c10Snapshot(s, keep, c.src.Opts)
				sigBase := fmt.Sprintf("carrier=%s source=%s", c.car.Name, srcClass(c.src.Name))
				if df := before.diff(after); df != "" {
					res = core.Fail("source-untouched", "SOURCE-CHANGED-BY-MERGE "+sigBase, df)
					return
				}
				if err != nil {
					// a failing merge is fine for this property as long as the source is untouched
					res.Outcome = "merge-error"
					return
				}
				if noOps {
					res.Outcome = "merged"
					res.Nontrivial = true
					return
				}
				fpD := fp.Of(fp.Exact, d)
				dataD, _ := canonOfConfig(d, c.src.Opts...)
				for _, o := range c.seq {
					if o == 0 {
						continue
					}
					if c.side == 0 {
						ops[o-1].Do(d, c.car.Prefix)
					} else {
						ops[o-1].Do(s, "")
					}
				}
				if c.side == 0 {
					// wrote to the destination: the source must not see it
					now := c10Snapshot(s, keep, c.src.Opts)
					if df := before.diff(now); df != "" {
						res = core.Fail("independence", "WRITE-TO-DESTINATION-VISIBLE-IN-SOURCE "+sigBase, df)
						return
					}
					res.Nontrivial = fp.Of(fp.Exact, d) != fpD
				} else {
					nowD := fp.Of(fp.Exact, d)
					dataNow, _ := canonOfConfig(d, c.src.Opts...)
					if nowD != fpD || dataNow != dataD {
						res = core.Fail("independence", "WRITE-TO-SOURCE-VISIBLE-IN-DESTINATION "+sigBase, fmt.Sprintf("data before %s after %s; %s", dataD, dataNow, firstDiff(fpD, nowD)))
						return
					}
					res.Nontrivial = fp.Of(fp.Exact, s, keep) != before.fpS
				}
				res.Outcome = fmt.Sprintf("side%d/changed=%v", c.side, res.Nontrivial)
			})
			if pi != nil {
				return apiPanic("c10", pi)
			}
			res.Trans = 1 + len(c.seq)
			return res
		},
	}
}

func srcClass(n string) string {
	switch n {
	case "child-handle", "list-element-handle", "child-with-references":
		return "child"
	}
	return "root"
}

func init() {
	core.Register(&core.Check{
		ID:    "C10",
		Level: "model_checking",
		Rule: "every (source, carrier, destination, policy) merge scenario followed by every sequence of further writes (Set*/Remove/Merge/SetChild, also through Child handles, at every address of the source shape) applied to the destination or to the source; " +
			"invariants: Exact reflective fingerprint of the whole graph reachable from the source, its Path, Parent and unpacked data are unchanged by the merge and by destination writes, the destination's fingerprint and data are unchanged by source writes; non-trivial = the write sequence changed the side it was applied to",
		Assumptions: []string{
			"10 source shapes (root, child and list-element handles, references, metadata, after Remove, nil/empty), 8 carriers (direct, nested in maps/slices/structs by pointer and by value), 4 destinations, 5 policies; write sequences of length <=1 (quick) / <=2 (thorough) over ~55 operations",
			"the fingerprint reads every field of every node reachable from the source (parents included), so any state the merge could share or modify is covered",
		},
		Spaces: func(tier string) []*core.Space {
			if tier == "thorough" {
				return []*core.Space{c10Space("merge+writes<=2", 2)}
			}
			return []*core.Space{c10Space("merge+writes<=1", 1)}
		},
	})
}
