package checks

import (
	"fmt"
	"regexp"
	"strings"

	ucfg "github.com/elastic/go-ucfg"

	"verif/internal/core"
)

// C14, further spaces: settings that are absent together with the sections that would hold them, faults that
// surface while a subtree is turned into generic data, and the path named by the getters.

type c14Req struct {
	N int `config:"n" validate:"required"`
	K int `config:"k"`
}

type c14S2 struct {
	S2 c14Req `config:"s2"`
	K  int    `config:"k"`
}

type c14S1 struct {
	S1 c14S2 `config:"s1"`
	K  int   `config:"k"`
}

type c14AT struct {
	Top c14S1            `config:"top"`
	Ptr *c14S1           `config:"ptr"`
	Lst []c14S1          `config:"lst"`
	Mp  map[string]c14S1 `config:"mp"`
	In  c14S1            `config:",inline"`
}

func c14GoodS1() M { return M{"s1": M{"s2": M{"n": 1, "k": 1}, "k": 1}, "k": 1} }

var c14accessing = regexp.MustCompile(`(?:accessing|in field) '([^']*)'`)

// c14Named returns the path the first line of the message names ("" if none).
func c14Named(err error) string {
	m := c14accessing.FindStringSubmatch(firstLine(err.Error()))
	if m == nil {
		return ""
	}
	return m[1]
}

func c14AbsentSpace() *core.Space {
	locs := []string{"", "top.", "ptr.", "lst.0.", "lst.1.", "mp.k."}
	// what is taken away: the leaf, the section holding it, the section holding that one; absent or null
	cuts := []string{"s1.s2.n", "s1.s2", "s1"}
	hows := []string{"absent", "null", "empty object"}
	radices := []int{len(locs), len(cuts), len(hows), int(numC14Loads)}
	return &core.Space{
		Name: "required-setting-in-absent-sections",
		Size: product(radices...),
		Text: func(i int) string {
			d := mixedRadix(i, radices...)
			return fmt.Sprintf("required setting %ss1.s2.n with %q %s; load kind %d", locs[d[0]], locs[d[0]]+cuts[d[1]], hows[d[2]], d[3])
		},
		Exec: func(i int) core.Result {
			d := mixedRadix(i, radices...)
			loc, cut, how, load := locs[d[0]], cuts[d[1]], hows[d[2]], c14Load(d[3])
			if cut == "s1.s2.n" && how == "empty object" {
				return core.Result{Skipped: true}
			}
			var res core.Result
			pi := core.Guard(func() {
				full := M{"top": c14GoodS1(), "ptr": c14GoodS1(), "lst": L{c14GoodS1(), c14GoodS1()}, "mp": M{"k": c14GoodS1()}}
				for k, v := range c14GoodS1() {
					full[k] = v
				}
				var obj M
				switch loc {
				case "":
					obj = full
				case "top.", "ptr.":
					obj = full[strings.TrimSuffix(loc, ".")].(M)
				case "lst.0.":
					obj = full["lst"].(L)[0].(M)
				case "lst.1.":
					obj = full["lst"].(L)[1].(M)
				case "mp.k.":
					obj = full["mp"].(M)["k"].(M)
				}
				segs := strings.Split(cut, ".")
				for _, s := range segs[:len(segs)-1] {
					obj = obj[s].(M)
				}
				last := segs[len(segs)-1]
				switch how {
				case "absent":
					delete(obj, last)
				case "null":
					obj[last] = nil
				case "empty object":
					obj[last] = M{}
				}
				opts := []ucfg.Option{ucfg.PathSep("."), ucfg.VarExp}
				cfg, _, err := c14LoadCfg(full, load, opts)
				if err != nil {
					res = core.Fail("load", "BUILD", err.Error())
					return
				}
				var t c14AT
				uerr := cfg.Unpack(&t, opts...)
				if uerr == nil {
					res = core.Fail("unpack", "FAULT-ACCEPTED required setting in an absent section", fmt.Sprintf("%ss1.s2.n is absent and was not reported", loc))
					return
				}
				ue, ok := uerr.(ucfg.Error)
				if !ok || ue.Reason() == nil || ue.Class() == nil {
					res = core.Fail("unpack", "NOT-A-UCFG-ERROR required setting in an absent section", fmt.Sprintf("%T: %v", uerr, firstLine(uerr.Error())))
					return
				}
				// the absent setting, or the outermost section that is absent
				want := []string{loc + "s1.s2.n", loc + cut}
				got := c14Named(uerr)
				if got != want[0] && got != want[1] {
					res = core.Fail("unpack", "PATH-MISSING required setting in a section that is "+how, fmt.Sprintf("expected the message to name '%s' (or '%s'): %s", want[0], want[1], firstLine(uerr.Error())))
					return
				}
				res = core.Result{Nontrivial: true, Outcome: how + " " + cut}
			})
			if pi != nil {
				return apiPanic("c14", pi)
			}
			return res
		},
	}
}

type c14GT struct {
	G interface{}            `config:"g"`
	M map[string]interface{} `config:"m"`
	L []interface{}          `config:"l"`
}

// faults that are met while a subtree is turned into generic data (interface{} targets)
func c14GenericSpace() *core.Space {
	type fault struct {
		Kind  string
		Val   string
		Extra M
		Name  string // the setting to be named when it is not the faulted one
	}
	faults := []fault{
		{"unresolvable reference", "${does.not.exist}", nil, ""},
		{"unresolvable reference in a splice", "x${nope}", nil, ""},
		{"cyclic reference", "SELF", nil, ""},
		{"broken second link of a reference chain", "${zchain}", M{"zchain": "${does.not.exist}"}, "zchain"},
		{"required alternative", "${nope:?it is needed}", nil, ""},
	}
	// where in a generic subtree the fault sits (relative to the subtree)
	inner := []string{"", "x", "o.p", "o.p.q", "a.1", "a.1.x", "o.a.0"}
	holders := []string{"g", "m", "l"}
	targets := []string{"struct with interface{}, map and list fields", "map[string]interface{}"}
	radices := []int{len(faults), len(inner), len(holders), len(targets), int(numC14Loads)}
	return &core.Space{
		Name: "faults-met-while-building-generic-data",
		Size: product(radices...),
		Text: func(i int) string {
			d := mixedRadix(i, radices...)
			return fmt.Sprintf("%s (%q) at %q below %q; target %s; load kind %d", faults[d[0]].Kind, faults[d[0]].Val, inner[d[1]], holders[d[2]], targets[d[3]], d[4])
		},
		Exec: func(i int) core.Result {
			d := mixedRadix(i, radices...)
			f, in, holder, target, load := faults[d[0]], inner[d[1]], holders[d[2]], d[3], c14Load(d[4])
			// the subtree
			sub := M{"x": "v", "o": M{"p": M{"q": 1, "r": 2}, "a": L{"e0"}}, "a": L{"e0", M{"x": 1, "y": 2}}, "k": 1}
			var root interface{} = sub
			path := holder
			switch holder {
			case "m":
				// the map field holds the subtree's members directly
			case "l":
				root = L{"first", sub}
				path = "l.1"
			}
			if in == "" {
				if holder != "g" {
					return core.Result{Skipped: true}
				}
			} else {
				path += "." + in
			}
			var res core.Result
			pi := core.Guard(func() {
				val := f.Val
				if val == "SELF" {
					val = "${" + path + "}"
				}
				// place the fault
				if in == "" {
					root = val
				} else {
					segs := strings.Split(in, ".")
					var cur interface{} = sub
					for n, s := range segs {
						lastSeg := n == len(segs)-1
						switch c := cur.(type) {
						case M:
							if lastSeg {
								c[s] = val
							} else {
								cur = c[s]
							}
						case L:
							idx := int(s[0] - '0')
							if lastSeg {
								c[idx] = val
							} else {
								cur = c[idx]
							}
						}
					}
				}
				full := M{holder: root, "other": 1}
				for k, v := range f.Extra {
					full[k] = v
				}
				opts := []ucfg.Option{ucfg.PathSep("."), ucfg.VarExp}
				cfg, src, err := c14LoadCfg(full, load, opts)
				if err != nil {
					res = core.Fail("load", "BUILD", err.Error())
					return
				}
				var uerr error
				switch target {
				case 0:
					var t c14GT
					uerr = cfg.Unpack(&t, opts...)
				case 1:
					var t map[string]interface{}
					uerr = cfg.Unpack(&t, opts...)
				}
				if uerr == nil {
					res = core.Fail("unpack", "FAULT-ACCEPTED "+f.Kind, fmt.Sprintf("fault at %q was not reported", path))
					return
				}
				ue, ok := uerr.(ucfg.Error)
				if !ok || ue.Reason() == nil || ue.Class() == nil {
					res = core.Fail("unpack", "NOT-A-UCFG-ERROR "+f.Kind, fmt.Sprintf("%T: %v", uerr, firstLine(uerr.Error())))
					return
				}
				// a broken link further down a chain: the setting read or the one whose reference cannot be
				// resolved (Appendix B, 22)
				want := path
				msg := firstLine(uerr.Error())
				if !strings.Contains(msg, "'"+want+"'") && !(f.Name != "" && strings.Contains(msg, "'"+f.Name+"'")) {
					res = core.Fail("unpack", "PATH-MISSING "+f.Kind+" (generic target)", fmt.Sprintf("expected the message to name '%s': %s", want, msg))
					return
				}
				if src != "" && !strings.Contains(msg, "source:'"+src+"'") {
					res = core.Fail("unpack", "SOURCE-MISSING "+f.Kind+" (generic target)", fmt.Sprintf("loaded from %q, message: %s", src, msg))
					return
				}
				res = core.Result{Nontrivial: true, Outcome: f.Kind}
			})
			if pi != nil {
				return apiPanic("c14", pi)
			}
			return res
		},
	}
}

// c14SweepPath: the segments a getter call addresses in the sweep's base configuration, and how many leading
// segments exist there. ok=false: the spelling is outside the plain names the path clause is judged for.
func c14SweepPath(base M, name string, idx int, pathSep bool) (segs []string, exists int, ok bool) {
	if name == "" && idx < 0 {
		return nil, 0, false
	}
	if name != "" {
		if pathSep {
			segs = strings.Split(name, ".")
		} else {
			segs = []string{name}
		}
	}
	for _, s := range segs {
		if s == "" || s[0] == '-' {
			return nil, 0, false
		}
	}
	if idx < -1 {
		return nil, 0, false
	}
	if idx >= 0 {
		segs = append(segs, fmt.Sprint(idx))
	}
	var cur interface{} = base
	all := segs
	segs = nil
	for n, s := range all {
		segs = append(segs, s)
		switch c := cur.(type) {
		case M:
			v, has := c[s]
			if !has {
				return append(segs, all[n+1:]...), exists, true
			}
			cur = v
		case L:
			num, isNum := 0, true
			for _, ch := range s {
				if ch < '0' || ch > '9' {
					isNum = false
				}
				num = num*10 + int(ch-'0')
			}
			if !isNum || num >= len(c) {
				return append(segs, all[n+1:]...), exists, true
			}
			cur = c[num]
		default:
			// index 0 of a primitive is the primitive itself: the same setting under another spelling
			if s != "0" || cur == nil {
				return append(segs, all[n+1:]...), exists, true
			}
			segs = segs[:len(segs)-1]
			continue
		}
		exists++
	}
	return segs, exists, true
}

// c14JudgeGetter: an error of a getter names the addressed setting, or the setting on the way to it that does
// not exist or has the wrong type - with its full path.
func c14JudgeGetter(entry string, err error, segs []string, exists int) (core.Result, bool) {
	got := c14Named(err)
	min := exists
	if min < 1 {
		min = 1
	}
	for n := min; n <= len(segs); n++ {
		if got == strings.Join(segs[:n], ".") {
			return core.Result{}, true
		}
	}
	// a reference that cannot be resolved may be reported for the name it refers to ("zz")
	return core.Fail("sweep", "PATH-MISSING "+entry, fmt.Sprintf("addressed '%s' (the first %d segments exist): %s", strings.Join(segs, "."), exists, firstLine(err.Error()))), false
}

// lists that are the root of a config (or are reached with Child) and are merged under a list policy: an entry
// keeps telling its real position when it fails to convert.
func c14ListRoots() *core.Space {
	pols := []struct {
		Name string
		Opt  []ucfg.Option
	}{{"default", nil}, {"append", []ucfg.Option{ucfg.AppendValues}}, {"prepend", []ucfg.Option{ucfg.PrependValues}}, {"replace", []ucfg.Option{ucfg.ReplaceValues}}}
	holders := []string{"the list is the root", "the list is reached with Child(\"l\")", "the list is reached with Child(\"o.l\")"}
	radices := []int{len(holders), len(pols), 4, 4, int(numC14Loads)}
	mkList := func(n int, tag string) L {
		l := L{}
		for i := 0; i < n; i++ {
			if i%2 == 0 {
				l = append(l, fmt.Sprintf("%s%d", tag, i))
			} else {
				l = append(l, M{"port": fmt.Sprintf("%s%d", tag, i)})
			}
		}
		return l
	}
	return &core.Space{
		Name: "list-roots-merged-under-list-policies",
		Size: product(radices...),
		Text: func(i int) string {
			d := mixedRadix(i, radices...)
			return fmt.Sprintf("%s: %v merged with %v under %s; every entry read with Int / unpacked into []int or []struct{Port int}; load kind %d", holders[d[0]], mkList(d[2], "old"), mkList(d[3], "new"), pols[d[1]].Name, d[4])
		},
		Exec: func(i int) core.Result {
			d := mixedRadix(i, radices...)
			var res core.Result
			pi := core.Guard(func() {
				opts := []ucfg.Option{ucfg.PathSep(".")}
				load := c14Load(d[4])
				old, nw := mkList(d[2], "old"), mkList(d[3], "new")
				var lst *ucfg.Config
				var src, prefix string
				var err error
				switch d[0] {
				case 0:
					if load == loadYAMLFile && len(old) == 0 {
						res = core.Result{Skipped: true}
						return
					}
					lst, src, err = c14LoadList(old, load, opts)
				case 1:
					var c *ucfg.Config
					c, src, err = c14LoadCfg(M{"l": old, "k": 1}, load, opts)
					if err == nil {
						lst, err = c.Child("l", -1, opts...)
						prefix = "l."
					}
				case 2:
					var c *ucfg.Config
					c, src, err = c14LoadCfg(M{"o": M{"l": old}, "k": 1}, load, opts)
					if err == nil {
						lst, err = c.Child("o.l", -1, opts...)
						prefix = "o.l."
					}
				}
				if err != nil {
					res = core.Fail("load", "BUILD", err.Error())
					return
				}
				mopts := append(append([]ucfg.Option{}, opts...), pols[d[1]].Opt...)
				if src != "" {
					mopts = append(mopts, ucfg.MetaData(ucfg.Meta{Source: src}))
				}
				if err := lst.Merge(nw, mopts...); err != nil {
					res = core.Fail("merge", "BUILD", err.Error())
					return
				}
				n, _ := lst.CountField("")
				judged := 0
				for idx := 0; idx < n; idx++ {
					// a string entry fails to convert at its own path, an object entry at <path>.port
					var errs []error
					_, e1 := lst.Int("", idx, opts...)
					errs = append(errs, e1)
					if ch, cerr := lst.Child("", idx, opts...); cerr == nil {
						_, e2 := ch.Int("port", -1, opts...)
						errs = append(errs, e2)
					}
					for _, e := range errs {
						if e == nil {
							continue
						}
						got := c14Named(e)
						want := fmt.Sprintf("%s%d", prefix, idx)
						if got != want && got != want+".port" {
							res = core.Fail("getter", "PATH-MISSING entry of a merged list", fmt.Sprintf("entry %d of %d: expected the message to name '%s' (or '%s.port'): %s", idx, n, want, want, firstLine(e.Error())))
							return
						}
						judged++
					}
				}
				res = core.Result{Nontrivial: judged > 0, Outcome: fmt.Sprintf("%d entries", n)}
			})
			if pi != nil {
				return apiPanic("c14", pi)
			}
			return res
		},
	}
}

func c14LoadList(data L, load c14Load, opts []ucfg.Option) (*ucfg.Config, string, error) {
	if load == loadMeta {
		c, err := ucfg.NewFrom(data, append([]ucfg.Option{ucfg.MetaData(ucfg.Meta{Source: "test.yml"})}, opts...)...)
		return c, "test.yml", err
	}
	c, err := ucfg.NewFrom(data, opts...)
	return c, "", err
}
