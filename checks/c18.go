package checks

import (
	"encoding/json"
	"fmt"
	"os"
	"path/filepath"
	"reflect"
	"sort"
	"strings"
	"time"

	hjsonlib "gopkg.in/hjson/hjson-go.v3"
	yamllib "gopkg.in/yaml.v2"

	ucfg "github.com/elastic/go-ucfg"
	"github.com/elastic/go-ucfg/hjson"
	ujson "github.com/elastic/go-ucfg/json"
	"github.com/elastic/go-ucfg/yaml"

	"verif/internal/core"
	"verif/internal/tree"
)

// C18: YAML, JSON and HJSON front-ends agree and record where settings came from.

var c18Leaves = []interface{}{nil, true, 0, -1, 2.5, 1e3, int64(9007199254740993), "", "s", "a b", "1", "true", "null", "a: b", "#x", "é", "${x}", "a.b", false, 1e-7, "x,y", "[1]", "{a}", "'q'", "\"dq\"", " lead", "multi\nline", uint64(18446744073709551615), uint64(18446744073709549568), uint64(9223372036854777856), 4294967296}

func c18Leafed(t *tree.Node, offset int) *tree.Node {
	c := t.Clone()
	i := offset
	var walk func(n *tree.Node)
	walk = func(n *tree.Node) {
		if n.K == tree.Leaf || n.K == tree.Nil {
			v := c18Leaves[i%len(c18Leaves)]
			i++
			if v == nil {
				n.K, n.V = tree.Nil, nil
			} else {
				n.K, n.V = tree.Leaf, v
			}
			return
		}
		keys := make([]string, 0, len(n.D))
		for k := range n.D {
			keys = append(keys, k)
		}
		sort.Strings(keys)
		for _, k := range keys {
			walk(n.D[k])
		}
		for _, e := range n.A {
			walk(e)
		}
	}
	walk(c)
	return c
}

func yamlToGeneric(v interface{}) interface{} {
	switch x := v.(type) {
	case map[interface{}]interface{}:
		m := map[string]interface{}{}
		for k, e := range x {
			m[fmt.Sprint(k)] = yamlToGeneric(e)
		}
		return m
	case map[string]interface{}:
		m := map[string]interface{}{}
		for k, e := range x {
			m[k] = yamlToGeneric(e)
		}
		return m
	case []interface{}:
		out := make([]interface{}, len(x))
		for i, e := range x {
			out[i] = yamlToGeneric(e)
		}
		return out
	}
	return v
}

type c18FrontEnd struct {
	Name     string
	Decode   func([]byte) (interface{}, error)
	New      func([]byte, ...ucfg.Option) (*ucfg.Config, error)
	WithFile func(string, ...ucfg.Option) (*ucfg.Config, error)
}

var c18FrontEnds = []c18FrontEnd{
	{"yaml", func(b []byte) (interface{}, error) {
		var v interface{}
		err := yamllib.Unmarshal(b, &v)
		return yamlToGeneric(v), err
	}, yaml.NewConfig, yaml.NewConfigWithFile},
	{"json", func(b []byte) (interface{}, error) {
		var v interface{}
		err := json.Unmarshal(b, &v)
		return v, err
	}, ujson.NewConfig, ujson.NewConfigWithFile},
	{"hjson", func(b []byte) (interface{}, error) {
		var v interface{}
		err := hjsonlib.Unmarshal(b, &v)
		return yamlToGeneric(v), err
	}, hjson.NewConfig, hjson.NewConfigWithFile},
}

var c18OptSets = []struct {
	Name   string
	Opts   []ucfg.Option
	VarExp bool
}{
	{"no options", nil, false},
	{"PathSep", []ucfg.Option{ucfg.PathSep(".")}, false},
	{"PathSep+VarExp", []ucfg.Option{ucfg.PathSep("."), ucfg.VarExp}, true},
}

// typedTarget builds a struct type mirroring the decoded JSON shape (dicts as structs,
// homogeneous lists as typed slices).
func typedTarget(v interface{}) reflect.Type {
	switch x := v.(type) {
	case map[string]interface{}:
		keys := make([]string, 0, len(x))
		for k := range x {
			keys = append(keys, k)
		}
		sort.Strings(keys)
		var fs []reflect.StructField
		for _, k := range keys {
			fs = append(fs, reflect.StructField{Name: "F" + strings.ToUpper(k), Type: typedTarget(x[k]), Tag: reflect.StructTag(fmt.Sprintf(`config:"%s"`, k))})
		}
		return reflect.StructOf(fs)
	case []interface{}:
		if len(x) > 0 {
			t0 := typedTarget(x[0])
			same := true
			for _, e := range x[1:] {
				if typedTarget(e) != t0 {
					same = false
				}
			}
			if same && t0 != tIface {
				return reflect.SliceOf(t0)
			}
		}
		return reflect.TypeOf([]interface{}(nil))
	case string:
		return reflect.TypeOf("")
	case bool:
		return reflect.TypeOf(false)
	case float64:
		if x >= 0 && x == float64(uint64(x)) && x < 1.8446744073709552e19 {
			return reflect.TypeOf(uint64(0))
		}
		return reflect.TypeOf(float64(0))
	}
	return tIface
}

// typedTarget2: a second typed mirror - numbers of moderate size as time.Duration (whole numbers are
// seconds in every syntax), other numbers as float64, lists of them as typed slices.
func typedTarget2(v interface{}) reflect.Type {
	switch x := v.(type) {
	case map[string]interface{}:
		keys := make([]string, 0, len(x))
		for k := range x {
			keys = append(keys, k)
		}
		sort.Strings(keys)
		var fs []reflect.StructField
		for _, k := range keys {
			fs = append(fs, reflect.StructField{Name: "F" + strings.ToUpper(k), Type: typedTarget2(x[k]), Tag: reflect.StructTag(fmt.Sprintf(`config:"%s"`, k))})
		}
		return reflect.StructOf(fs)
	case []interface{}:
		if len(x) > 0 {
			t0 := typedTarget2(x[0])
			same := true
			for _, e := range x[1:] {
				if typedTarget2(e) != t0 {
					same = false
				}
			}
			if same && t0 != tIface {
				return reflect.SliceOf(t0)
			}
		}
		return reflect.TypeOf([]interface{}(nil))
	case float64:
		if x > -1e9 && x < 1e9 {
			return reflect.TypeOf(time.Duration(0))
		}
		return reflect.TypeOf(float64(0))
	case bool:
		return reflect.TypeOf(false)
	}
	return tIface
}

// c18KeyPaths lists every dictionary key present in generic data (null-valued ones included).
func c18KeyPaths(v interface{}) string {
	var out []string
	var walk func(v interface{}, p string)
	walk = func(v interface{}, p string) {
		switch x := v.(type) {
		case map[string]interface{}:
			for k, e := range x {
				out = append(out, p+"/"+k)
				walk(e, p+"/"+k)
			}
		case []interface{}:
			for i, e := range x {
				walk(e, fmt.Sprintf("%s/#%d", p, i))
			}
		}
	}
	walk(v, "")
	sort.Strings(out)
	return strings.Join(out, " ")
}

// c18Degenerate: inputs without any setting. The *WithFile loader must behave like its in-memory
// counterpart: both fail, or both give configs that unpack to the same data and keep a target's
// defaults.
func c18Degenerate() *core.Space {
	inputs := []string{"", " ", "\n", "\n\n", "# only a comment\n", "# a\n# b\n", "{}", "[]", "null", "~", "---\n", "---\n...\n", "// c\n{}", "{\n}\n", "a:", "a: ~\n"}
	radices := []int{len(inputs), len(c18FrontEnds)}
	return &core.Space{
		Name: "inputs-without-settings",
		Size: product(radices...),
		Text: func(i int) string {
			d := mixedRadix(i, radices...)
			return fmt.Sprintf("%q through %s.NewConfig and %s.NewConfigWithFile", inputs[d[0]], c18FrontEnds[d[1]].Name, c18FrontEnds[d[1]].Name)
		},
		Exec: func(i int) core.Result {
			d := mixedRadix(i, radices...)
			in, fe := inputs[d[0]], c18FrontEnds[d[1]]
			var res core.Result
			pi := core.Guard(func() {
				if c18Tmp == "" {
					c18Tmp, _ = os.MkdirTemp(core.RunDir(), "c18-")
				}
				fname := filepath.Join(c18Tmp, "degenerate."+fe.Name)
				os.WriteFile(fname, []byte(in), 0644)
				mcfg, merr := fe.New([]byte(in))
				fcfg, ferr := fe.WithFile(fname)
				if (merr == nil) != (ferr == nil) {
					res = core.Fail("degenerate", "FILE-LOADER-DIFFERS "+fe.Name, fmt.Sprintf("NewConfig: %v; NewConfigWithFile: %v", merr, ferr))
					return
				}
				if merr != nil {
					res.Outcome = "rejected"
					res.Nontrivial = true
					return
				}
				type tgt struct {
					A    interface{}
					Keep string
				}
				mt, ft := tgt{Keep: "dflt"}, tgt{Keep: "dflt"}
				e1, e2 := mcfg.Unpack(&mt), fcfg.Unpack(&ft)
				if (e1 == nil) != (e2 == nil) || fmt.Sprintf("%#v", mt) != fmt.Sprintf("%#v", ft) {
					res = core.Fail("degenerate", "FILE-DATA-DIFFERS "+fe.Name, fmt.Sprintf("NewConfig: %#v (%v); NewConfigWithFile: %#v (%v)", mt, e1, ft, e2))
					return
				}
				res.Outcome = "loaded"
				res.Nontrivial = true
			})
			if pi != nil {
				return apiPanic("c18", pi)
			}
			return res
		},
	}
}

// typedTarget3: a third typed mirror - every scalar is read as text.
func typedTarget3(v interface{}) reflect.Type {
	switch x := v.(type) {
	case map[string]interface{}:
		keys := make([]string, 0, len(x))
		for k := range x {
			keys = append(keys, k)
		}
		sort.Strings(keys)
		var fs []reflect.StructField
		for _, k := range keys {
			fs = append(fs, reflect.StructField{Name: "F" + strings.ToUpper(k), Type: typedTarget3(x[k]), Tag: reflect.StructTag(fmt.Sprintf(`config:"%s"`, k))})
		}
		return reflect.StructOf(fs)
	case []interface{}:
		if len(x) > 0 {
			t0 := typedTarget3(x[0])
			same := true
			for _, e := range x[1:] {
				if typedTarget3(e) != t0 {
					same = false
				}
			}
			if same && t0 != tIface {
				return reflect.SliceOf(t0)
			}
		}
		return reflect.TypeOf([]interface{}(nil))
	case string, bool, float64:
		return reflect.TypeOf("")
	}
	return tIface
}

// typedText renders a typed result with numbers by value (interface{} elements keep the
// decoder's number type).
func typedText(v reflect.Value) string {
	switch v.Kind() {
	case reflect.Interface, reflect.Ptr:
		if v.IsNil() {
			return "nil"
		}
		return typedText(v.Elem())
	case reflect.Struct:
		var parts []string
		for i := 0; i < v.NumField(); i++ {
			parts = append(parts, v.Type().Field(i).Name+":"+typedText(v.Field(i)))
		}
		return "{" + strings.Join(parts, " ") + "}"
	case reflect.Slice:
		var parts []string
		for i := 0; i < v.Len(); i++ {
			parts = append(parts, typedText(v.Index(i)))
		}
		return "[" + strings.Join(parts, " ") + "]"
	case reflect.Map:
		return tree.CanonGoOpt(yamlToGeneric(v.Interface()), true)
	case reflect.Int, reflect.Int8, reflect.Int16, reflect.Int32, reflect.Int64:
		return tree.CanonGo(v.Int())
	case reflect.Uint, reflect.Uint8, reflect.Uint16, reflect.Uint32, reflect.Uint64:
		return tree.CanonGo(v.Uint())
	case reflect.Float32, reflect.Float64:
		return tree.CanonGo(v.Float())
	}
	return fmt.Sprintf("%#v", v.Interface())
}

var c18Tmp string

func c18Space(ts []*tree.Node, offsets []int) *core.Space {
	var docs []*tree.Node
	for i, t := range ts {
		if t.K != tree.Cont || (t.HasA && len(t.D) > 0) {
			continue
		}
		for _, o := range offsets {
			docs = append(docs, c18Leafed(t, i+o))
		}
	}
	for i := range c18Leaves {
		docs = append(docs, c18Leafed(tree.Dict("v", tree.LeafN("x")), i), c18Leafed(tree.List(tree.LeafN("x"), tree.LeafN("y")), i))
	}
	nO := len(c18OptSets)
	return &core.Space{
		Name: "documents",
		Size: len(docs) * nO,
		Text: func(i int) string {
			b, _ := json.Marshal(docs[i/nO].Generic())
			return fmt.Sprintf("%s loaded by yaml/json/hjson with %s", b, c18OptSets[i%nO].Name)
		},
		Exec: func(i int) core.Result {
			doc, os_ := docs[i/nO], c18OptSets[i%nO]
			b, err := json.Marshal(doc.Generic())
			if err != nil {
				panic("harness: " + err.Error())
			}
			if os_.VarExp && strings.Contains(string(b), "${") {
				return core.Result{Skipped: true}
			}
			var res core.Result
			pi := core.Guard(func() {
				var rawCanon, cfgCanon [3]string
				var typed, typed2, typed3, keySets [3]string
				valid := true
				for k, fe := range c18FrontEnds {
					raw, err := fe.Decode(b)
					if err != nil {
						valid = false
						continue
					}
					rawCanon[k] = tree.CanonGoOpt(raw, true)
					cfg, err := fe.New(b, os_.Opts...)
					if err != nil {
						res = core.Fail("frontend", "LOAD-FAILED "+fe.Name, fmt.Sprintf("%s decodes it, %s.NewConfig fails: %v", fe.Name, fe.Name, err))
						return
					}
					var got string
					if _, isList := raw.([]interface{}); isList {
						var l []interface{}
						if err := cfg.Unpack(&l, os_.Opts...); err != nil {
							res = core.Fail("frontend", "UNPACK-FAILED "+fe.Name, err.Error())
							return
						}
						got = tree.CanonGoOpt(l, true)
					} else {
						m, err := unpackGeneric(cfg, os_.Opts...)
						if err != nil {
							res = core.Fail("frontend", "UNPACK-FAILED "+fe.Name, err.Error())
							return
						}
						got = tree.CanonGoOpt(m, true)
						keySets[k] = c18KeyPaths(m)
					}
					cfgCanon[k] = got
					if normC18(got) != normC18(rawCanon[k]) {
						res = core.Fail("frontend", "DATA-DIFFERS-FROM-DECODER "+fe.Name+" "+os_.Name, fmt.Sprintf("%s decodes %s, config unpacks to %s", fe.Name, rawCanon[k], got))
						return
					}
					// typed target mirroring the JSON shape
					var js interface{}
					json.Unmarshal(b, &js)
					if m, ok := js.(map[string]interface{}); ok && len(m) > 0 {
						tgt := reflect.New(typedTarget(js))
						if err := cfg.Unpack(tgt.Interface(), os_.Opts...); err != nil {
							typed[k] = "error"
						} else {
							typed[k] = typedText(tgt.Elem())
						}
						tgt3 := reflect.New(typedTarget3(js))
						if err := cfg.Unpack(tgt3.Interface(), os_.Opts...); err != nil {
							typed3[k] = "error"
						} else {
							typed3[k] = typedText(tgt3.Elem())
						}
						tgt2 := reflect.New(typedTarget2(js))
						if err := cfg.Unpack(tgt2.Interface(), os_.Opts...); err != nil {
							typed2[k] = "error"
						} else {
							typed2[k] = typedText(tgt2.Elem())
						}
					}
					// file loader: same data, and the source in error messages
					if c18Tmp == "" {
						c18Tmp, _ = os.MkdirTemp(core.RunDir(), "c18-")
					}
					fname := filepath.Join(c18Tmp, "doc."+fe.Name)
					wrapped, _ := json.Marshal(map[string]interface{}{"flt": "not a number", "doc": doc.Generic()})
					os.WriteFile(fname, wrapped, 0644)
					// the caller's option slice has spare capacity and is used again afterwards
					shared := make([]ucfg.Option, len(os_.Opts), len(os_.Opts)+4)
					copy(shared, os_.Opts)
					fcfg, err := fe.WithFile(fname, shared...)
					if err != nil {
						res = core.Fail("file", "FILE-LOAD-FAILED "+fe.Name, err.Error())
						return
					}
					if again, err := fe.New(b, shared...); err != nil {
						res = core.Fail("file", "OPTIONS-CHANGED-BY-FILE-LOADER "+fe.Name, "NewConfig with the same option slice after NewConfigWithFile: "+err.Error())
						return
					} else {
						var g2 string
						if _, isList := raw.([]interface{}); isList {
							var l []interface{}
							again.Unpack(&l, shared...)
							g2 = tree.CanonGoOpt(l, true)
						} else {
							m2, _ := unpackGeneric(again, shared...)
							g2 = tree.CanonGoOpt(m2, true)
						}
						var bad struct {
							V int `config:"v"`
							A int `config:"a"`
						}
						e2 := again.Unpack(&bad, shared...)
						if g2 != got || (e2 != nil && strings.Contains(e2.Error(), "source:")) {
							res = core.Fail("file", "OPTIONS-CHANGED-BY-FILE-LOADER "+fe.Name, fmt.Sprintf("the caller's option slice was used for NewConfigWithFile; NewConfig with the same slice afterwards gives %s (before: %s), error text: %v", g2, got, e2))
							return
						}
					}
					var probe struct {
						Flt int         `config:"flt"`
						Doc interface{} `config:"doc"`
					}
					uerr := fcfg.Unpack(&probe, os_.Opts...)
					if uerr == nil || !strings.Contains(uerr.Error(), "source:'"+fname+"'") || !strings.Contains(uerr.Error(), "'flt'") {
						res = core.Fail("file", "SOURCE-NOT-REPORTED "+fe.Name, fmt.Sprintf("expected an error about 'flt' mentioning source:'%s', got %v", fname, uerr))
						return
					}
					// an error attributed to a section or list (not a scalar) names the source as well
					var probe2 struct {
						Doc int `config:"doc"`
					}
					uerr = fcfg.Unpack(&probe2, os_.Opts...)
					nonEmpty := false
					switch g := doc.Generic().(type) {
					case map[string]interface{}:
						nonEmpty = tree.CanonGo(g) != "~"
					case []interface{}:
						nonEmpty = len(g) > 1
					}
					if nonEmpty && (uerr == nil || !strings.Contains(uerr.Error(), "source:'"+fname+"'")) {
						res = core.Fail("file", "SOURCE-NOT-REPORTED-FOR-SECTION "+fe.Name, fmt.Sprintf("expected an error about 'doc' mentioning source:'%s', got %v", fname, uerr))
						return
					}
					var only struct {
						Doc interface{} `config:"doc"`
					}
					if err := fcfg.Unpack(&only, os_.Opts...); err != nil {
						res = core.Fail("file", "FILE-UNPACK-FAILED "+fe.Name, err.Error())
						return
					}
					if g := tree.CanonGoOpt(only.Doc, true); normC18(g) != normC18(got) {
						res = core.Fail("file", "FILE-DATA-DIFFERS "+fe.Name, fmt.Sprintf("NewConfig gives %s, NewConfigWithFile gives %s", got, g))
						return
					}
				}
				if valid && rawCanon[0] == rawCanon[1] && rawCanon[1] == rawCanon[2] {
					if cfgCanon[0] != cfgCanon[1] || cfgCanon[1] != cfgCanon[2] {
						res = core.Fail("cross", "FRONTENDS-DISAGREE "+os_.Name, fmt.Sprintf("yaml %s json %s hjson %s", cfgCanon[0], cfgCanon[1], cfgCanon[2]))
						return
					}
					// a setting whose value is null is a setting in every syntax: same keys everywhere
					if keySets[0] != keySets[1] || keySets[1] != keySets[2] {
						res = core.Fail("cross", "FRONTENDS-DISAGREE-ON-KEYS "+os_.Name, fmt.Sprintf("keys present in the unpacked data: yaml %s json %s hjson %s", keySets[0], keySets[1], keySets[2]))
						return
					}
					if typed[0] != typed[1] || typed[1] != typed[2] {
						res = core.Fail("cross", "FRONTENDS-DISAGREE-TYPED "+os_.Name, fmt.Sprintf("yaml %s json %s hjson %s", typed[0], typed[1], typed[2]))
						return
					}
					if typed2[0] != typed2[1] || typed2[1] != typed2[2] {
						res = core.Fail("cross", "FRONTENDS-DISAGREE-TYPED(durations) "+os_.Name, fmt.Sprintf("yaml %s json %s hjson %s", typed2[0], typed2[1], typed2[2]))
						return
					}
					if typed3[0] != typed3[1] || typed3[1] != typed3[2] {
						res = core.Fail("cross", "FRONTENDS-DISAGREE-TYPED(text) "+os_.Name, fmt.Sprintf("every scalar read into a string field: yaml %s json %s hjson %s", typed3[0], typed3[1], typed3[2]))
						return
					}
					res.Outcome = "valid-in-all-three"
					res.Nontrivial = true
				} else if valid {
					// the decoders differ (encoding/json and hjson-go deliver every number as a float64): the
					// statement compares numbers by value, so each config is held against the document itself
					truth := normC18(tree.CanonGoOpt(doc.Generic(), true))
					var who []string
					detail := ""
					for k, fe := range c18FrontEnds {
						if normC18(cfgCanon[k]) != truth {
							who = append(who, fe.Name)
							detail += fmt.Sprintf("; %s.NewConfig unpacks to %s", fe.Name, cfgCanon[k])
						}
					}
					if len(who) > 0 {
						// the cause that is a recorded finding: the document's integers went through a float64
						var js interface{}
						json.Unmarshal(b, &js)
						asFloats := normC18(tree.CanonGoOpt(js, true))
						sig := "FRONTEND-DATA-DIFFERS-FROM-DOCUMENT "
						for k, fe := range c18FrontEnds {
							if normC18(cfgCanon[k]) != truth && normC18(cfgCanon[k]) != asFloats {
								res = core.Fail("cross", sig+fe.Name, "document "+truth+detail)
								return
							}
						}
						res = core.Fail("cross", "INTEGER-BEYOND-2^53-ROUNDED-TO-FLOAT64 "+strings.Join(who, "+"), "document "+truth+detail)
						return
					}
					res.Outcome = "decoders-differ, data equal by value"
					res.Nontrivial = true
				} else {
					res.Outcome = "decoders-differ"
				}
			})
			if pi != nil {
				return apiPanic("c18", pi)
			}
			return res
		},
	}
}

// c18Dotted: documents whose keys are dotted names (sections created implicitly) loaded from files with
// PathSep: an error attributed to any of the implicit sections names the file, exactly as for the same
// sections written as nested objects.
func c18Dotted() *core.Space {
	docs := []map[string]interface{}{
		{"hosts": []interface{}{}, "pair": []interface{}{}, "n": map[string]interface{}{"l": []interface{}{}}},
		{"server.tls.port": 8443},
		{"a.b.c.d": 1},
		{"a.b": map[string]interface{}{"c.d": 1}},
		{"a": map[string]interface{}{"b.c.d": 1}},
		{"l.0.x.y": 1},
		{"a.b.c": 1, "a.b.d": 2, "a.e.f": 3},
		{"a.b.c": []interface{}{map[string]interface{}{"d.e": 1}}},
		{"a": map[string]interface{}{"b": map[string]interface{}{"c": map[string]interface{}{"d": 1}}}},
	}
	// every path that holds an object or a list in the loaded config
	var sections func(v interface{}, prefix string, out *[]string)
	sections = func(v interface{}, prefix string, out *[]string) {
		switch x := v.(type) {
		case map[string]interface{}:
			for k, e := range x {
				segs := strings.Split(k, ".")
				p := prefix
				for i, sgm := range segs {
					if p != "" {
						p += "."
					}
					p += sgm
					if i < len(segs)-1 {
						*out = append(*out, p)
					}
				}
				switch e.(type) {
				case map[string]interface{}, []interface{}:
					*out = append(*out, p)
				}
				sections(e, p, out)
			}
		case []interface{}:
			for i, e := range x {
				p := prefix + "." + fmt.Sprint(i)
				switch e.(type) {
				case map[string]interface{}, []interface{}:
					*out = append(*out, p)
				}
				sections(e, p, out)
			}
		}
	}
	type cs struct {
		doc  int
		fe   int
		path string
	}
	var cases []cs
	for di, d := range docs {
		var ps []string
		sections(d, "", &ps)
		sort.Strings(ps)
		seen := map[string]bool{}
		for _, p := range ps {
			if seen[p] {
				continue
			}
			seen[p] = true
			for fi := range c18FrontEnds {
				cases = append(cases, cs{di, fi, p})
			}
		}
	}
	return &core.Space{
		Name: "dotted-keys-in-files",
		Size: len(cases),
		Text: func(i int) string {
			c := cases[i]
			b, _ := json.Marshal(docs[c.doc])
			return fmt.Sprintf("%s loaded by %s.NewConfigWithFile with PathSep, section %q read as an int", b, c18FrontEnds[c.fe].Name, c.path)
		},
		Exec: func(i int) core.Result {
			c := cases[i]
			fe := c18FrontEnds[c.fe]
			var res core.Result
			pi := core.Guard(func() {
				if c18Tmp == "" {
					c18Tmp, _ = os.MkdirTemp(core.RunDir(), "c18-")
				}
				b, _ := json.Marshal(docs[c.doc])
				fname := filepath.Join(c18Tmp, "dotted."+fe.Name)
				os.WriteFile(fname, b, 0644)
				opts := []ucfg.Option{ucfg.PathSep(".")}
				fcfg, err := fe.WithFile(fname, opts...)
				if err != nil {
					res = core.Fail("dotted", "FILE-LOAD-FAILED "+fe.Name, err.Error())
					return
				}
				mcfg, err := fe.New(b, opts...)
				if err != nil {
					res = core.Fail("dotted", "LOAD-FAILED "+fe.Name, err.Error())
					return
				}
				mk := func() interface{} {
					return reflect.New(reflect.StructOf([]reflect.StructField{{Name: "F", Type: reflect.TypeOf(0), Tag: reflect.StructTag(fmt.Sprintf(`config:"%s"`, c.path))}})).Interface()
				}
				ferr, merr := fcfg.Unpack(mk(), opts...), mcfg.Unpack(mk(), opts...)
				if ferr == nil || merr == nil {
					res = core.Fail("dotted", "SECTION-READ-AS-INT-ACCEPTED "+fe.Name, fmt.Sprintf("file: %v memory: %v", ferr, merr))
					return
				}
				fmsg, mmsg := firstLine(ferr.Error()), firstLine(merr.Error())
				if !strings.Contains(fmsg, "'"+c.path+"'") {
					res = core.Fail("dotted", "PATH-MISSING "+fe.Name, fmt.Sprintf("expected the message to name '%s': %s", c.path, fmsg))
					return
				}
				if !strings.Contains(fmsg, "source:'"+fname+"'") {
					res = core.Fail("dotted", "SOURCE-NOT-REPORTED-FOR-IMPLICIT-SECTION "+fe.Name, fmt.Sprintf("section %q of a file: %s", c.path, fmsg))
					return
				}
				if stripped := strings.Replace(fmsg, " (source:'"+fname+"')", "", 1); stripped != mmsg {
					res = core.Fail("dotted", "FILE-ERROR-DIFFERS "+fe.Name, fmt.Sprintf("memory: %s | file: %s", mmsg, fmsg))
					return
				}
				res.Nontrivial = true
				res.Outcome = fe.Name
			})
			if pi != nil {
				return apiPanic("c18", pi)
			}
			return res
		},
	}
}

// empty list and nil: a front-end's decoder distinguishes them, the config keeps [] for a
// list setting; compare modulo that only at the very top
func normC18(s string) string { return s }

func init() {
	core.Register(&core.Check{
		ID:    "C18",
		Level: "exploration",
		Rule:  "JSON-expressible documents (every dict/list shape of depth<=2 over keys {a,b} with lists<=2, leaves assigned cyclically from 31 values: null, booleans, integers incl. 2^53+1 and 2^64-1, floats, and strings that look like other YAML/HJSON/ucfg syntax - '1', 'true', 'null', 'a: b', '#x', '${x}', 'a.b', 'x,y', '[1]', quotes, leading blank, multi-line, non-ASCII) serialised with encoding/json and loaded by yaml.NewConfig, json.NewConfig and hjson.NewConfig under {no options, PathSep, PathSep+VarExp}; per front-end the unpacked data must equal what the front-end's own decoder yields; where the three decoders agree the three configs must unpack to the same generic data (including which keys are present with a null value) and typed data (three StructOf mirrors: numbers as uint64/float64, numbers as time.Duration, every scalar as text); NewConfigWithFile must give the same data and errors must mention source:'<file>'; 8 documents with dotted keys of up to 4 segments (implicit sections, also inside lists and nested objects) loaded from files with PathSep: reading any implicit section as an int fails naming the section and the file, with the same text as the in-memory loader otherwise; 16 inputs without settings (empty, blank, comments only, {}, [], null, document markers) through NewConfig and NewConfigWithFile of each front-end: same verdict, same data, target defaults kept; non-trivial = the document is valid and decoded identically by all three; where the three decoders differ (integers beyond 2^53) every config is compared with the document itself, numbers by value",
		Assumptions: []string{
			"third-party decoders are trusted and compared with themselves (their quirks are not attributed to ucfg); documents on which they disagree are only checked per front-end",
			"documents containing ${ are skipped under VarExp (the reference would be unresolvable)",
		},
		Spaces: func(tier string) []*core.Space {
			if tier == "thorough" {
				return []*core.Space{c18Dotted(), c18EvaluatedInFiles(), c18Degenerate(), c18Space(cachedEnum(2, kAB, 2), []int{0, 5, 11, 17, 23})}
			}
			return []*core.Space{c18Dotted(), c18EvaluatedInFiles(), c18Degenerate(), c18Space(cachedEnum(2, kAB, 2), []int{0})}
		},
	})
}
