package checks

import (
	"fmt"
	"strings"

	ucfg "github.com/elastic/go-ucfg"
	"github.com/elastic/go-ucfg/parse"

	"verif/internal/core"
	"verif/internal/tree"
	vx "verif/internal/varexp"
)

// C02: variable expansion is late-bound substitution with a fixed lookup order.

var c02Root = map[string]interface{}{
	"r": "Rr", "all": "Rall", "z": "", "nm": "r", "p.q": "Rpq", "n": 5, "b": true,
	"o": M{"k": "Rok"}, "l": L{"l0", "l1"},
	"r2": vx.Exp(vx.Op{Kind: ":", Name: vx.Lit("er2"), RHS: vx.Lit("Rd")}),
}
var c02Env1 = map[string]interface{}{"e1": "E1e1", "e12": "E1e12", "all": "E1all", "p.r": "E1pr", "ed.x": "E1edx", "r": "E1r",
	// settings of the Env configuration that are expressions themselves: evaluated in the Env's own
	// tree (er: its r, not the root's; er2/r2: the name r2 exists in both trees, as a reference to
	// er2 in the root and as a plain value here - no cycle)
	"er": vx.Exp(vx.Ref{Name: vx.Lit("r")}), "er2": vx.Exp(vx.Cat{vx.Lit("<"), vx.Ref{Name: vx.Lit("r2")}, vx.Lit(">")}), "r2": "E1r2"}
var c02Env2 = map[string]interface{}{"e12": "E2e12"}
var c02Res1 = map[string]string{"v1": "V1v1", "v12": "V1v12", "all": "V1all", "e1": "V1e1"}
var c02Res2 = map[string]string{"v12": "V2v12"}

var c02Names = []string{"r", "e1", "e12", "v1", "v12", "all", "u", "z", "p.q", "p.r", "ed.x", "er", "r2"}

// nest turns a flat dotted map into nested maps.
func nest(flat map[string]interface{}) M {
	out := M{}
	for k, v := range flat {
		segs := strings.Split(k, ".")
		cur := out
		for _, s := range segs[:len(segs)-1] {
			nx, ok := cur[s].(M)
			if !ok {
				nx = M{}
				cur[s] = nx
			}
			cur = nx
		}
		if e, ok := v.(vx.Exp); ok {
			v = e.Render()
		}
		cur[segs[len(segs)-1]] = v
	}
	return out
}

func layerOf(flat map[string]interface{}) vx.Layer {
	l := vx.Layer{}
	for k, v := range flat {
		switch x := v.(type) {
		case int:
			l[k] = vx.Setting{Plain: int64(x)}
		case M:
			l[k] = vx.Setting{Plain: map[string]interface{}(x)}
			for kk, vv := range x {
				l[k+"."+kk] = vx.Setting{Plain: vv}
			}
		case L:
			l[k] = vx.Setting{Plain: []interface{}(x)}
		case vx.Exp:
			l[k] = vx.Setting{Expr: x}
		default:
			l[k] = vx.Setting{Plain: v}
		}
	}
	return l
}

type c02Layers struct{ envs, res int }

func (lc c02Layers) model() *vx.Env {
	e := &vx.Env{Root: layerOf(c02Root)}
	if lc.envs >= 1 {
		e.Envs = append(e.Envs, layerOf(c02Env1))
	}
	if lc.envs >= 2 {
		e.Envs = append(e.Envs, layerOf(c02Env2))
	}
	if lc.res >= 1 {
		e.Resolvers = append(e.Resolvers, c02Res1)
	}
	if lc.res >= 2 {
		e.Resolvers = append(e.Resolvers, c02Res2)
	}
	return e
}

func resolverOpt(m map[string]string) ucfg.Option {
	return ucfg.Resolve(func(name string) (string, parse.Config, error) {
		if v, ok := m[name]; ok {
			return v, parse.NoopConfig, nil
		}
		return "", parse.NoopConfig, ucfg.ErrMissing
	})
}

func (lc c02Layers) options() []ucfg.Option {
	opts := []ucfg.Option{ucfg.PathSep("."), ucfg.VarExp}
	if lc.envs >= 1 {
		opts = append(opts, ucfg.Env(mustCfg(nest(c02Env1), ucfg.PathSep("."), ucfg.VarExp)))
	}
	if lc.envs >= 2 {
		opts = append(opts, ucfg.Env(mustCfg(nest(c02Env2), ucfg.PathSep("."), ucfg.VarExp)))
	}
	if lc.res >= 1 {
		opts = append(opts, resolverOpt(c02Res1))
	}
	if lc.res >= 2 {
		opts = append(opts, resolverOpt(c02Res2))
	}
	return opts
}

func c02Exprs(depth2 bool, full bool) []vx.Exp {
	// (literals with an escape at the end, alone and doubled: the character after an escape is
	// then a '$', a ':' or a '}' with a meaning of its own)
	atoms := []vx.Exp{vx.Lit("x"), vx.Lit("p$q"), vx.Lit("a}b"), vx.Lit("c:d"), vx.Lit("q$"), vx.Lit("$"), vx.Lit("$}z")}
	var refs []vx.Exp
	for _, n := range c02Names {
		refs = append(refs, vx.Ref{Name: vx.Lit(n)})
	}
	refs = append(refs, vx.Ref{Name: vx.Ref{Name: vx.Lit("nm")}})
	rhs := append(append([]vx.Exp{}, atoms...), refs...)
	var out []vx.Exp
	out = append(out, rhs...)
	var ops []vx.Exp
	for _, k := range []string{":", ":+", ":?"} {
		for _, n := range c02Names {
			for _, r := range rhs {
				ops = append(ops, vx.Op{Kind: k, Name: vx.Lit(n), RHS: r})
			}
		}
	}
	out = append(out, ops...)
	for _, a := range rhs {
		for _, b := range rhs {
			out = append(out, vx.Cat{a, b})
		}
	}
	// computed names and operators on computed names
	for _, k := range []string{":", ":+", ":?"} {
		out = append(out, vx.Op{Kind: k, Name: vx.Ref{Name: vx.Lit("nm")}, RHS: vx.Lit("d")})
		out = append(out, vx.Op{Kind: k, Name: vx.Ref{Name: vx.Lit("u")}, RHS: vx.Lit("d")})
	}
	out = append(out, vx.Ref{Name: vx.Cat{vx.Lit("p."), vx.Ref{Name: vx.Lit("qname")}}})
	// operators on a name computed from a constant prefix and a reference (set / unset), inside text
	for _, k := range []string{":", ":+", ":?"} {
		for _, inner := range []string{"qname", "u", "z"} {
			op := vx.Op{Kind: k, Name: vx.Cat{vx.Lit("p."), vx.Ref{Name: vx.Lit(inner)}}, RHS: vx.Lit("d")}
			out = append(out, op, vx.Cat{vx.Lit("pre-"), op, vx.Lit("-post")})
		}
	}
	if depth2 {
		// nested defaults: ${n1:${n2:lit}} ... and operators inside operators
		inner := ops
		if !full {
			inner = nil
			for _, o := range ops {
				if op := o.(vx.Op); op.Kind == ":" || isLit(op.RHS) {
					inner = append(inner, o)
				}
			}
		}
		for _, k := range []string{":", ":+", ":?"} {
			for _, n := range []string{"r", "e12", "v12", "u", "z", "p.r"} {
				for _, in := range inner {
					out = append(out, vx.Op{Kind: k, Name: vx.Lit(n), RHS: in})
				}
			}
		}
		for _, in := range inner {
			out = append(out, vx.Cat{vx.Lit("pre-"), in, vx.Lit("-post")})
		}
	}
	return out
}

func isLit(e vx.Exp) bool { _, ok := e.(vx.Lit); return ok }

type c02Entry int

const (
	entString c02Entry = iota
	entUnpackMap
	entUnpackStruct
	entChildGetter
	entListElem
	entListObj
	entStringNoSepAtRead
	numC02Entries
)

func (e c02Entry) String() string {
	return [...]string{"String getter", "Unpack->map", "Unpack->struct", "Child+String", "list element + String(idx)", "object in list + Child(idx)+String", "String getter, read without the PathSep option"}[e]
}

type c02Order int

const (
	ordAtCreation c02Order = iota
	ordMergedLater
	ordOverwritten
	numC02Orders
)

func (o c02Order) String() string {
	return [...]string{"definitions present at creation", "definitions merged in later", "stale definitions overwritten by a later merge"}[o]
}

// build the config under test: setting k (or s.k) holds the expression text.
func c02Build(text string, ent c02Entry, ord c02Order, opts []ucfg.Option) (*ucfg.Config, error) {
	var kset interface{} = M{"k": text}
	switch ent {
	case entChildGetter:
		kset = M{"s": M{"k": text}}
	case entListElem:
		kset = M{"lst": L{"first", text}}
	case entListObj:
		kset = M{"ls": L{M{"k": text}}}
	}
	defs := nest(c02Root)
	defs["qname"] = "q"
	switch ord {
	case ordAtCreation:
		for k, v := range kset.(M) {
			defs[k] = v
		}
		return ucfg.NewFrom(defs, opts...)
	case ordMergedLater:
		c, err := ucfg.NewFrom(kset, opts...)
		if err != nil {
			return nil, err
		}
		return c, c.Merge(defs, opts...)
	default:
		stale := nest(map[string]interface{}{"r": "OLDr", "all": "OLDall", "z": "OLDz", "nm": "u", "p.q": "OLDpq", "u": nil})
		delete(stale, "u")
		c, err := ucfg.NewFrom(stale, opts...)
		if err != nil {
			return nil, err
		}
		if err := c.Merge(kset, opts...); err != nil {
			return nil, err
		}
		return c, c.Merge(defs, opts...)
	}
}

func c02Read(c *ucfg.Config, ent c02Entry, opts []ucfg.Option) (string, error) {
	switch ent {
	case entStringNoSepAtRead:
		// the paths of an expression are fixed when it is parsed: reading does not need PathSep
		return c.String("k", -1, opts[1:]...)
	case entString:
		return c.String("k", -1, opts...)
	case entUnpackMap:
		var m map[string]interface{}
		if err := c.Unpack(&m, opts...); err != nil {
			return "", err
		}
		s, ok := m["k"].(string)
		if !ok {
			return fmt.Sprintf("<%T>%v", m["k"], m["k"]), nil
		}
		return s, nil
	case entUnpackStruct:
		var st struct {
			K string `config:"k"`
		}
		if err := c.Unpack(&st, opts...); err != nil {
			return "", err
		}
		return st.K, nil
	case entListElem:
		return c.String("lst", 1, opts...)
	case entListObj:
		ch, err := c.Child("ls", 0, opts...)
		if err != nil {
			return "", err
		}
		return ch.String("k", -1, opts...)
	default:
		ch, err := c.Child("s", -1, opts...)
		if err != nil {
			return "", err
		}
		return ch.String("k", -1, opts...)
	}
}

func c02Space(name string, exprs []vx.Exp) *core.Space {
	layerCfgs := []c02Layers{{0, 0}, {1, 0}, {2, 0}, {0, 1}, {0, 2}, {1, 1}, {2, 2}, {1, 2}, {2, 1}}
	nE, nL := len(exprs), len(layerCfgs)
	radices := []int{nE, nL, int(numC02Entries), int(numC02Orders)}
	dec := func(i int) (vx.Exp, c02Layers, c02Entry, c02Order) {
		d := mixedRadix(i, radices...)
		return exprs[d[0]], layerCfgs[d[1]], c02Entry(d[2]), c02Order(d[3])
	}
	return &core.Space{
		Name: name,
		Size: product(radices...),
		Text: func(i int) string {
			e, lc, ent, ord := dec(i)
			return fmt.Sprintf("k: %q with %d Env configs and %d resolvers, read through %s, %s", e.Render(), lc.envs, lc.res, ent, ord)
		},
		Exec: func(i int) core.Result {
			e, lc, ent, ord := dec(i)
			env := lc.model()
			env.Root["qname"] = vx.Setting{Plain: "q"}
			m := vx.Eval(env, e)
			var got string
			var err error
			pi := core.Guard(func() {
				opts := lc.options()
				var c *ucfg.Config
				c, err = c02Build(e.Render(), ent, ord, opts)
				if err != nil {
					err = fmt.Errorf("building the config failed: %v", err)
					return
				}
				got, err = c02Read(c, ent, opts)
			})
			if pi != nil {
				return apiPanic("expand", pi)
			}
			res := core.Result{Outcome: m.Kind.String()}
			// non-trivial: some referenced name is defined in >=2 layers or in none
			for _, n := range vx.Refs(e) {
				cnt := 0
				if _, ok := env.Root[n]; ok {
					cnt++
				}
				for _, l := range env.Envs {
					if _, ok := l[n]; ok {
						cnt++
					}
				}
				for _, r := range env.Resolvers {
					if _, ok := r[n]; ok {
						cnt++
					}
				}
				if cnt != 1 {
					res.Nontrivial = true
				}
			}
			sig := func(class string) string {
				return fmt.Sprintf("%s %s envs=%d resolvers=%d", class, exprShape(e), minInt(lc.envs, 1), minInt(lc.res, 1))
			}
			switch m.Kind {
			case vx.Undefined:
				res.Skipped = true
			case vx.Value:
				if err != nil {
					return core.Fail("expand", sig("ERROR-INSTEAD-OF-VALUE"), fmt.Sprintf("model value %q, impl error: %v", m.Str, err))
				}
				if got != m.Str {
					return core.Fail("expand", sig("WRONG-VALUE"), fmt.Sprintf("model %q impl %q", m.Str, got))
				}
			case vx.Missing, vx.Cyclic:
				if err == nil {
					return core.Fail("expand", sig("UNRESOLVED-NOT-AN-ERROR"), fmt.Sprintf("model: %s (%s), impl returned %q without error", m.Kind, m.Str, got))
				}
			case vx.UserErr:
				if err == nil {
					return core.Fail("expand", sig("USER-ERROR-MISSING"), fmt.Sprintf("model: fails with %q, impl returned %q", m.Str, got))
				}
				msg := err.Error()
				if ue, ok := err.(ucfg.Error); ok && ue.Reason() != nil {
					msg += " / " + ue.Reason().Error()
				}
				if !strings.Contains(msg, m.Str) {
					return core.Fail("expand", sig("USER-ERROR-TEXT"), fmt.Sprintf("model: fails with %q, impl error %q", m.Str, msg))
				}
			}
			return res
		},
	}
}

func minInt(a, b int) int {
	if a < b {
		return a
	}
	return b
}

func exprShape(e vx.Exp) string {
	switch t := e.(type) {
	case vx.Lit:
		return "lit"
	case vx.Ref:
		if isLit(t.Name) {
			return "ref"
		}
		return "ref(computed)"
	case vx.Op:
		return "op" + t.Kind + "(" + exprShape(t.RHS) + ")"
	case vx.Cat:
		return "cat"
	}
	return "?"
}

// typed single references: a setting that is exactly one reference takes the referenced value with its type.
// c02ResolverText: values a resolver supplies are inserted into text as they are spelled (the
// resolver's parse.Config only matters for a setting that is exactly one reference).
func c02ResolverText() *core.Space {
	vals := map[string]string{"ID": "007", "VER": "1.10", "OFF": "+5", "LBL": "'blue'", "T": "true", "N": "null", "HEX": "0x10", "SP": "pad  ded", "F": "1e3"}
	names := []string{"ID", "VER", "OFF", "LBL", "T", "N", "HEX", "SP", "F"}
	templates := []struct{ pre, post, op string }{
		// (every template starts with literal text: a result starting with a quote or bracket is
		// read with the value syntax, which is not the point here)
		{"agent-", "", ""}, {"v", "-rc", ""}, {"<", ">", ":nobody"}, {"<", ">", ":+set"}, {"x-", "-x", ":?unset"}, {"a-", "-b", ""},
	}
	cfgs := []struct {
		name string
		pc   parse.Config
	}{{"parse.DefaultConfig", parse.DefaultConfig}, {"parse.NoopConfig", parse.NoopConfig}, {"parse.EnvConfig", parse.EnvConfig}}
	// the name handed to the resolver is the name as written, whatever the separator is
	seps := []string{"", ".", "/", "->"} // (":" is the operator character of the expressions)
	radices := []int{len(names), len(templates), len(cfgs), 3, len(seps)}
	return &core.Space{
		Name: "resolver-values-inside-text",
		Size: product(radices...),
		Text: func(i int) string {
			d := mixedRadix(i, radices...)
			t := templates[d[1]]
			return fmt.Sprintf("k: %q with a resolver (%s) answering %s=%q, read through entry %d", t.pre+"${"+names[d[0]]+t.op+"}"+t.post, cfgs[d[2]].name, names[d[0]], vals[names[d[0]]], d[3])
		},
		Exec: func(i int) core.Result {
			d := mixedRadix(i, radices...)
			n, t := names[d[0]], templates[d[1]]
			sep := seps[d[4]]
			full := n
			if sep != "" {
				full = "secrets" + sep + "db" + sep + n // a name of several parts
			}
			text := t.pre + "${" + full + t.op + "}" + t.post
			want := t.pre + vals[n] + t.post
			if t.op == ":+set" {
				want = t.pre + "set" + t.post
			}
			var res core.Result
			pi := core.Guard(func() {
				ps := "."
				if sep != "" {
					ps = sep
				}
				opts := []ucfg.Option{ucfg.PathSep(ps), ucfg.VarExp, ucfg.Resolve(func(name string) (string, parse.Config, error) {
					if name == full {
						return vals[n], cfgs[d[2]].pc, nil
					}
					return "", cfgs[d[2]].pc, ucfg.ErrMissing
				})}
				cfg, err := ucfg.NewFrom(M{"k": text, "s": M{"k": text}, "l": L{text}}, opts...)
				if err != nil {
					res = core.Fail("resolvertext", "BUILD", err.Error())
					return
				}
				var got string
				switch d[3] {
				case 0:
					got, err = cfg.String("k", -1, opts...)
				case 1:
					got, err = cfg.String("s"+ps+"k", -1, opts...)
				case 2:
					var st struct{ L []string }
					if err = cfg.Unpack(&st, opts...); err == nil {
						got = st.L[0]
					}
				}
				if err != nil || got != want {
					res = core.Fail("resolvertext", "RESOLVER-VALUE-NOT-INSERTED-VERBATIM", fmt.Sprintf("expected %q, got (%q, %v)", want, got, err))
					return
				}
				res.Nontrivial = true
				res.Outcome = "verbatim"
			})
			if pi != nil {
				return apiPanic("resolvertext", pi)
			}
			return res
		},
	}
}

// c02SharedTemplate: two configs received copies of one template holding an expression (by Merge);
// each defines the referenced name itself, one is read with the other as Env. Every copy is
// evaluated in the tree it lives in, also when both are evaluated within one call.
func c02SharedTemplate() *core.Space {
	exprs := []struct{ text, main, env string }{
		{"${name}-svc", "main-svc", "env-svc"},
		{"${name}", "main", "env"},
		{"${name:dflt}", "main", "env"},
		{"<${name}|${name}>", "<main|main>", "<env|env>"},
		{"${o.n}", "mo", "eo"},
	}
	radices := []int{len(exprs), 3}
	return &core.Space{
		Name: "template-copies-in-two-trees",
		Size: product(radices...),
		Text: func(i int) string {
			d := mixedRadix(i, radices...)
			return fmt.Sprintf("template {label: %q} merged into main {name: main, viaenv: ${alias}} and env {name: env, alias: ${label}}; main read with Env(env) through %s", exprs[d[0]].text, []string{"struct{Label, Viaenv}", "struct{Viaenv, Label}", "getters in both orders"}[d[1]])
		},
		Exec: func(i int) core.Result {
			d := mixedRadix(i, radices...)
			e := exprs[d[0]]
			var res core.Result
			pi := core.Guard(func() {
				opts := []ucfg.Option{ucfg.PathSep("."), ucfg.VarExp}
				tmpl := mustCfg(M{"label": e.text}, opts...)
				main, env := ucfg.New(), ucfg.New()
				for _, st := range []struct {
					c   *ucfg.Config
					own M
				}{{main, M{"name": "main", "o": M{"n": "mo"}, "viaenv": "${alias}"}}, {env, M{"name": "env", "o": M{"n": "eo"}, "alias": "${label}"}}} {
					if err := st.c.Merge(tmpl, opts...); err != nil {
						panic("harness: " + err.Error())
					}
					if err := st.c.Merge(st.own, opts...); err != nil {
						panic("harness: " + err.Error())
					}
				}
				ro := append([]ucfg.Option{ucfg.Env(env)}, opts...)
				var label, viaenv string
				var err error
				switch d[1] {
				case 0:
					var t struct{ Label, Viaenv string }
					err = main.Unpack(&t, ro...)
					label, viaenv = t.Label, t.Viaenv
				case 1:
					var t struct{ Viaenv, Label string }
					err = main.Unpack(&t, ro...)
					label, viaenv = t.Label, t.Viaenv
				case 2:
					var m map[string]interface{}
					if err = main.Unpack(&m, ro...); err == nil {
						label, _ = m["label"].(string)
						viaenv, _ = m["viaenv"].(string)
					}
				}
				if err != nil || label != e.main || viaenv != e.env {
					res = core.Fail("template", "COPY-EVALUATED-IN-ANOTHER-TREE", fmt.Sprintf("expected label=%q viaenv=%q, got label=%q viaenv=%q err=%v", e.main, e.env, label, viaenv, err))
					return
				}
				res.Nontrivial = true
				res.Outcome = "own-tree"
			})
			if pi != nil {
				return apiPanic("template", pi)
			}
			return res
		},
	}
}

func c02Typed() *core.Space {
	type tcase struct {
		ref    string
		via    string // "", "chain" (through another single reference)
		expect interface{}
	}
	cases := []tcase{
		{"n", "", int64(5)}, {"b", "", true}, {"r", "", "Rr"}, {"o", "", M{"k": "Rok"}}, {"l", "", L{"l0", "l1"}}, {"z", "", ""},
		{"n", "chain", int64(5)}, {"b", "chain", true}, {"o", "chain", M{"k": "Rok"}}, {"l", "chain", L{"l0", "l1"}},
		{"p.q", "", "Rpq"}, {"o.k", "", "Rok"}, {"l.1", "", "l1"},
	}
	n := len(cases)
	return &core.Space{
		Name: "typed-single-reference",
		Size: n * int(numC02Orders),
		Text: func(i int) string {
			c := cases[i/int(numC02Orders)]
			return fmt.Sprintf("k: \"${%s}\" %s, %s: Unpack->interface{}, typed getters, typed struct fields", c.ref, c.via, c02Order(i%int(numC02Orders)))
		},
		Exec: func(i int) core.Result {
			c := cases[i/int(numC02Orders)]
			ord := c02Order(i % int(numC02Orders))
			var res core.Result
			pi := core.Guard(func() {
				opts := []ucfg.Option{ucfg.PathSep("."), ucfg.VarExp}
				text := "${" + c.ref + "}"
				cfg, err := c02Build(text, entString, ord, opts)
				if err == nil && c.via == "chain" {
					err = cfg.Merge(M{"k": "${k2}", "k2": text}, opts...)
				}
				if err != nil {
					res = core.Fail("typed", "TYPED build", err.Error())
					return
				}
				var m map[string]interface{}
				if err := cfg.Unpack(&m, opts...); err != nil {
					res = core.Fail("typed", "TYPED unpack "+c.ref, err.Error())
					return
				}
				want := tree.CanonGoOpt(normGeneric(c.expect), true)
				if got := tree.CanonGoOpt(m["k"], true); got != want {
					res = core.Fail("typed", "TYPED value "+fmt.Sprintf("%T", c.expect), fmt.Sprintf("k=${%s}: model %s impl %s", c.ref, want, got))
					return
				}
				switch e := c.expect.(type) {
				case int64:
					v, err := cfg.Int("k", -1, opts...)
					if err != nil || v != e {
						res = core.Fail("typed", "TYPED Int getter", fmt.Sprintf("Int(k)=(%d,%v) want %d", v, err, e))
						return
					}
					var st struct {
						K int8 `config:"k"`
					}
					if err := cfg.Unpack(&st, opts...); err != nil || int64(st.K) != e {
						res = core.Fail("typed", "TYPED int8 field", fmt.Sprintf("(%d,%v) want %d", st.K, err, e))
						return
					}
				case bool:
					v, err := cfg.Bool("k", -1, opts...)
					if err != nil || v != e {
						res = core.Fail("typed", "TYPED Bool getter", fmt.Sprintf("Bool(k)=(%v,%v) want %v", v, err, e))
						return
					}
				case M:
					ch, err := cfg.Child("k", -1, opts...)
					if err != nil {
						res = core.Fail("typed", "TYPED Child of referenced object", err.Error())
						return
					}
					s, err := ch.String("k", -1, opts...)
					if err != nil || s != "Rok" {
						res = core.Fail("typed", "TYPED Child.String", fmt.Sprintf("(%q,%v)", s, err))
						return
					}
					var st struct {
						K struct {
							K string `config:"k"`
						} `config:"k"`
					}
					if err := cfg.Unpack(&st, opts...); err != nil || st.K.K != "Rok" {
						res = core.Fail("typed", "TYPED struct field from referenced object", fmt.Sprintf("(%q,%v)", st.K.K, err))
						return
					}
				case L:
					var st struct {
						K []string `config:"k"`
					}
					if err := cfg.Unpack(&st, opts...); err != nil || len(st.K) != 2 || st.K[1] != "l1" {
						res = core.Fail("typed", "TYPED slice field from referenced list", fmt.Sprintf("(%v,%v)", st.K, err))
						return
					}
					if n, err := cfg.CountField("k", opts...); err != nil || n != 2 {
						res = core.Fail("typed", "TYPED CountField of referenced list", fmt.Sprintf("(%d,%v)", n, err))
						return
					}
				}
				res.Nontrivial = true
				res.Outcome = fmt.Sprintf("%T", c.expect)
			})
			if pi != nil {
				return apiPanic("typed", pi)
			}
			return res
		},
	}
}

func normGeneric(v interface{}) interface{} {
	switch x := v.(type) {
	case M:
		out := map[string]interface{}{}
		for k, e := range x {
			out[k] = normGeneric(e)
		}
		return out
	case L:
		out := make([]interface{}, len(x))
		for i, e := range x {
			out[i] = normGeneric(e)
		}
		return out
	}
	return v
}

func init() {
	core.Register(&core.Check{
		ID:    "C02",
		Level: "exploration",
		Rule:  "every expression over the constructors {literal (incl. $ } : escapes), ${n}, ${n:E}, ${n:+E}, ${n:?E}, computed names, concatenation} up to the stated operator depth, for 11 names placed in root / Env1 / Env2 / resolver1 / resolver2 / several / none (dotted names whose prefix exists in the root included), x 9 layer configurations x 7 read entries / placements (top level, nested object, list element, object inside a list) x 3 definition orders is evaluated by the implementation and by the reference evaluator; non-trivial = a referenced name is defined in >=2 layers or in none",
		Assumptions: []string{
			"literals contain no text that parse.Value would re-type (digits, commas, brackets)",
			"cases the statement leaves open (:+ on a set-but-empty name, text form of containers) are executed but not compared (undefined_by_model)",
			"operator depth <=1 plus nested defaults (quick) / <=2 (thorough)",
		},
		Spaces: func(tier string) []*core.Space {
			if tier == "thorough" {
				return []*core.Space{c02Typed(), c02ResolverText(), c02SharedTemplate(), c02Space("expressions-depth<=2", c02Exprs(true, true))}
			}
			return []*core.Space{c02Typed(), c02ResolverText(), c02SharedTemplate(), c02Space("expressions-depth<=1+nested-defaults", c02Exprs(true, false))}
		},
	})
}
