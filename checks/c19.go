package checks

import (
	"encoding/json"
	"errors"
	"fmt"
	"strings"

	ucfg "github.com/elastic/go-ucfg"
	"github.com/elastic/go-ucfg/cfgutil"
	uflag "github.com/elastic/go-ucfg/flag"
	"github.com/elastic/go-ucfg/parse"

	"verif/internal/core"
	"verif/internal/tree"
)

// C19: repeated flags accumulate like sequential merges with the flag's options.
// Every sequence of Set calls over a small argument alphabet is executed on a real
// FlagValue; after every prefix the config must equal (a) the statement's own
// definition evaluated with the real API (NewFrom with the options, Merge in order
// with the same options) and (b), where the tree model defines it, the model fold.

var c19Args = []string{
	"a=1", "a=2", "a.b=1", "a.b=x", "a.0=x", "a.1=y", "a=[1,2]", "a=[3]", "a={b:1}", "a={c:[4]}", "b", "c=", "=1", "a=[1", `a="x`, "", "a=null", "a.b=[5]", "a=x=y", "0.h=x", "0=top", "1.h=y",
}

type c19OptSet struct {
	Name   string
	Opts   func() []ucfg.Option
	Policy tree.Policy
	Sep    bool
	Model  bool // the tree model applies
}

var c19OptSets = []c19OptSet{
	{"PathSep", func() []ucfg.Option { return []ucfg.Option{ucfg.PathSep(".")} }, tree.Default, true, true},
	{"PathSep+AppendValues", func() []ucfg.Option { return []ucfg.Option{ucfg.PathSep("."), ucfg.AppendValues} }, tree.Append, true, true},
	{"PathSep+PrependValues", func() []ucfg.Option { return []ucfg.Option{ucfg.PathSep("."), ucfg.PrependValues} }, tree.Prepend, true, true},
	{"PathSep+ReplaceValues", func() []ucfg.Option { return []ucfg.Option{ucfg.PathSep("."), ucfg.ReplaceValues} }, tree.Replace, true, true},
	{"none", func() []ucfg.Option { return nil }, tree.Default, false, true},
	{"PathSep+VarExp", func() []ucfg.Option { return []ucfg.Option{ucfg.PathSep("."), ucfg.VarExp} }, tree.Default, true, false},
	{"PathSep+FieldAppendValues(a)", func() []ucfg.Option {
		return []ucfg.Option{ucfg.PathSep("."), ucfg.FieldAppendValues("a")}
	}, tree.Default, true, false},
}

var errMadeUp = errors.New("bare key without autoBool")

type c19Outcome struct {
	canon string
	err   string
}

// genericToTree converts a parse.Value result into a model tree.
func genericToTree(v interface{}) *tree.Node {
	switch x := v.(type) {
	case nil:
		return tree.NilN()
	case map[string]interface{}:
		n := &tree.Node{K: tree.Cont, D: map[string]*tree.Node{}}
		for k, e := range x {
			n.D[k] = genericToTree(e)
		}
		return n
	case []interface{}:
		n := &tree.Node{K: tree.Cont, HasA: true}
		for _, e := range x {
			n.A = append(n.A, genericToTree(e))
		}
		return n
	}
	return tree.LeafN(v)
}

func c19InitCfg(pre bool) (*ucfg.Config, *tree.Node) {
	if !pre {
		return nil, tree.New()
	}
	c := mustCfg(M{"a": L{"i0"}, "z": "keep"})
	return c, tree.Dict("a", tree.List(tree.LeafN("i0")), "z", tree.LeafN("keep"))
}

func c19KV(name string, maxLen int) *core.Space {
	nA, nO := len(c19Args), len(c19OptSets)
	radices := []int{nO, 2, 2}
	for i := 0; i < maxLen; i++ {
		radices = append(radices, nA+1) // 0 = end of sequence
	}
	type cs struct {
		os       c19OptSet
		autoBool bool
		pre      bool
		seq      []string
		valid    bool
	}
	dec := func(i int) cs {
		d := mixedRadix(i, radices...)
		c := cs{os: c19OptSets[d[0]], autoBool: d[1] == 1, pre: d[2] == 1, valid: true}
		ended := false
		for k := 0; k < maxLen; k++ {
			x := d[3+k]
			if x == 0 {
				ended = true
				continue
			}
			if ended {
				c.valid = false
			}
			c.seq = append(c.seq, c19Args[x-1])
		}
		return c
	}
	return &core.Space{
		Name: name,
		Size: product(radices...),
		Text: func(i int) string {
			c := dec(i)
			return fmt.Sprintf("NewFlagKeyValue(init=%v, autoBool=%v, %s) Set %q", c.pre, c.autoBool, c.os.Name, c.seq)
		},
		Exec: func(i int) core.Result {
			c := dec(i)
			if !c.valid {
				return core.Result{Skipped: true}
			}
			var res core.Result
			pi := core.Guard(func() {
				init, minit := c19InitCfg(c.pre)
				opts := c.os.Opts()
				fv := uflag.NewFlagKeyValue(init, c.autoBool, opts...)
				// reference fold (the statement's definition, with the real API)
				refInit, _ := c19InitCfg(c.pre)
				if refInit == nil {
					refInit = ucfg.New()
				}
				var refErr error
				model := minit
				modelOK := c.os.Model
				sep := ""
				if c.os.Sep {
					sep = "."
				}
				for k, arg := range c.seq {
					setErr := fv.Set(arg)
					// --- reference
					var stepErr error
					var piece *ucfg.Config
					var mpiece *tree.Node
					if eq := strings.Index(arg, "="); eq < 0 {
						if c.autoBool {
							piece, stepErr = ucfg.NewFrom(M{arg: true}, opts...)
							mpiece = tree.LeafN(true)
						} else {
							stepErr = errMadeUp
						}
					} else if val := arg[eq+1:]; val != "" {
						var v interface{}
						if v, stepErr = parse.Value(val); stepErr == nil {
							piece, stepErr = ucfg.NewFrom(M{arg[:eq]: v}, opts...)
							mpiece = genericToTree(v)
						}
					}
					key := arg
					if eq := strings.Index(arg, "="); eq >= 0 {
						key = arg[:eq]
					}
					if refErr == nil {
						if stepErr != nil {
							refErr = stepErr
						} else if piece != nil {
							if err := refInit.Merge(piece, opts...); err != nil {
								refErr = err
							}
							if modelOK {
								if key == "" || strings.HasPrefix(key, ".") || strings.HasSuffix(key, ".") {
									modelOK = false // empty path segments: not defined by the model
								} else {
									src := tree.New()
									if !tree.Set(src, tree.ParseAddr(key, -1, sep), mpiece) {
										modelOK = false
									} else {
										model = tree.Merge(c.os.Policy, model, src)
									}
								}
							}
						}
					} else if modelOK && false {
						_ = mpiece
					}
					// --- compare after this prefix
					step := fmt.Sprintf("after Set #%d (%q)", k+1, arg)
					if (fv.Error() == nil) != (refErr == nil) {
						res = core.Fail("fold", "ERROR-STATE "+c.os.Name, fmt.Sprintf("%s: flag error=%v, sequential merges error=%v", step, fv.Error(), refErr))
						return
					}
					if refErr == errMadeUp {
						// the statement does not fix the text of this error: keep the flag's own, it must stay
						refErr = errors.New(fv.Error().Error())
					}
					if refErr != nil && fv.Error().Error() != refErr.Error() {
						res = core.Fail("first-error", "FIRST-ERROR-NOT-KEPT", fmt.Sprintf("%s: flag reports %q, first failing argument gave %q", step, fv.Error(), refErr))
						return
					}
					if stepErr != nil && setErr == nil {
						res = core.Fail("fold", "SET-RETURNS-NIL-ON-FAILURE", fmt.Sprintf("%s: Set returned nil for a failing argument (%v)", step, stepErr))
						return
					}
					got, gerr := canonBoth(fv.Config(), opts...)
					want, werr := canonBoth(refInit, opts...)
					if (gerr == nil) != (werr == nil) || got != want {
						res = core.Fail("fold", "CONFIG-DIFFERS "+c.os.Name, fmt.Sprintf("%s: flag config %s (%v), sequential merges with the same options %s (%v)", step, got, gerr, want, werr))
						return
					}
					if modelOK && refErr == nil && gerr == nil {
						dictOnly, _ := canonOfConfig(fv.Config(), opts...)
						if mw := (&tree.Node{K: tree.Cont, D: model.D}).Canon(); dictOnly != mw {
							res = core.Fail("model", "MODEL-DIFFERS "+c.os.Name, fmt.Sprintf("%s: flag config %s, model fold %s", step, got, mw))
							return
						}
					}
					if gerr == nil && fv.Error() == nil {
						// String() is the JSON of the same data
						var js interface{}
						if err := json.Unmarshal([]byte(fv.String()), &js); err != nil {
							res = core.Fail("string", "STRING-NOT-JSON", fmt.Sprintf("%s: String()=%q: %v", step, fv.String(), err))
							return
						}
						var m map[string]interface{}
						fv.Config().Unpack(&m, opts...)
						mb, _ := json.Marshal(m)
						var js2 interface{}
						json.Unmarshal(mb, &js2)
						if tree.CanonGo(jsonNorm(js)) != tree.CanonGo(jsonNorm(js2)) {
							res = core.Fail("string", "STRING-DIFFERS", fmt.Sprintf("%s: String()=%s data=%s", step, fv.String(), mb))
							return
						}
					}
				}
				res.Nontrivial = len(c.seq) >= 2
				e := "ok"
				if refErr != nil {
					e = "err"
				}
				cn, _ := canonOfConfig(fv.Config(), opts...)
				res.Outcome = e
				res.Key = core.CaseKey("c19", cn+"|"+e)
				res.Trans = len(c.seq)
			})
			if pi != nil {
				return apiPanic("c19", pi)
			}
			return res
		},
	}
}

// canonBoth: canonical text of the dict part and of the top-level list part.
func canonBoth(c *ucfg.Config, opts ...ucfg.Option) (string, error) {
	d, err := canonOfConfig(c, opts...)
	if err != nil {
		return "", err
	}
	if c.IsArray() {
		var l []interface{}
		if err := c.Unpack(&l, opts...); err != nil {
			return "", err
		}
		d += " + list " + tree.CanonGo(l)
	}
	return d, nil
}

func jsonNorm(v interface{}) interface{} {
	switch x := v.(type) {
	case map[string]interface{}:
		for k, e := range x {
			x[k] = jsonNorm(e)
		}
		return x
	case []interface{}:
		for i, e := range x {
			x[i] = jsonNorm(e)
		}
		return x
	}
	return v
}

// file flags with an in-memory loader table
func c19Files(maxLen int) *core.Space {
	files := []string{"one.a", "two.a", "list.b", "fail.b", "unknown.x", "noext", "nil.a", "toplist.a", "toplist2.b"}
	errLoad := errors.New("loading failed")
	content := map[string]interface{}{
		"one.a":  M{"a": M{"b": 1}, "l": L{"x"}},
		"two.a":  M{"a": M{"c": 2}, "l": L{"y", "z"}},
		"list.b": M{"l": L{M{"k": 1}}},
		"noext":  M{"n": true},
		// files whose top level is a list
		"toplist.a":  L{M{"id": 1}, "x"},
		"toplist2.b": L{M{"id": 2}},
	}
	nF, nO := len(files), 5
	radices := []int{nO, 2}
	for i := 0; i < maxLen; i++ {
		radices = append(radices, nF+1)
	}
	dec := func(i int) (c19OptSet, bool, []string, bool) {
		d := mixedRadix(i, radices...)
		var seq []string
		ended, valid := false, true
		for k := 0; k < maxLen; k++ {
			x := d[2+k]
			if x == 0 {
				ended = true
				continue
			}
			if ended {
				valid = false
			}
			seq = append(seq, files[x-1])
		}
		return c19OptSets[d[0]], d[1] == 1, seq, valid
	}
	return &core.Space{
		Name: "file-flags",
		Size: product(radices...),
		Text: func(i int) string {
			os, pre, seq, _ := dec(i)
			return fmt.Sprintf("NewFlagFiles(init=%v, %s) Set %q", pre, os.Name, seq)
		},
		Exec: func(i int) core.Result {
			os, pre, seq, valid := dec(i)
			if !valid {
				return core.Result{Skipped: true}
			}
			var res core.Result
			pi := core.Guard(func() {
				opts := os.Opts()
				load := func(name string, o ...ucfg.Option) (*ucfg.Config, error) {
					if strings.HasPrefix(name, "fail") {
						return nil, errLoad
					}
					if strings.HasPrefix(name, "nil") {
						return nil, nil
					}
					return ucfg.NewFrom(content[name], o...)
				}
				exts := map[string]uflag.FileLoader{".a": load, ".b": load, "": load}
				delete(exts, "")
				exts[""] = nil
				init, _ := c19InitCfg(pre)
				fv := uflag.NewFlagFiles(init, exts, opts...)
				ref, _ := c19InitCfg(pre)
				if ref == nil {
					ref = ucfg.New()
				}
				var refErr error
				for k, f := range seq {
					fv.Set(f)
					if refErr == nil {
						var piece *ucfg.Config
						var err error
						switch {
						case strings.HasSuffix(f, ".a") || strings.HasSuffix(f, ".b"):
							piece, err = load(f, opts...)
						default:
							err = fmt.Errorf("no loader for file '%v' found", f)
						}
						if err != nil {
							refErr = err
						} else if piece != nil {
							if err := ref.Merge(piece, opts...); err != nil {
								refErr = err
							}
						}
					}
					step := fmt.Sprintf("after Set #%d (%q)", k+1, f)
					if (fv.Error() == nil) != (refErr == nil) || (refErr != nil && fv.Error().Error() != refErr.Error()) {
						res = core.Fail("files", "FIRST-ERROR-NOT-KEPT", fmt.Sprintf("%s: flag error=%v, expected %v", step, fv.Error(), refErr))
						return
					}
					got, _ := canonBoth(fv.Config(), opts...)
					want, _ := canonBoth(ref, opts...)
					if got != want {
						res = core.Fail("files", "CONFIG-DIFFERS "+os.Name, fmt.Sprintf("%s: flag config %s, sequential merges with the same options %s", step, got, want))
						return
					}
				}
				res.Nontrivial = len(seq) >= 2
				res.Trans = len(seq)
			})
			if pi != nil {
				return apiPanic("c19", pi)
			}
			return res
		},
	}
}

func c19Collector() *core.Space {
	return &core.Space{
		Name:   "collector-options",
		Size:   len(c19OptSets),
		InProc: true,
		Text:   func(i int) string { return "cfgutil.NewCollector(nil, " + c19OptSets[i].Name + ").GetOptions()" },
		Exec: func(i int) core.Result {
			opts := c19OptSets[i].Opts()
			col := cfgutil.NewCollector(nil, opts...)
			if len(col.GetOptions()) != len(opts) {
				return core.Fail("collector", "COLLECTOR-DROPS-OPTIONS", fmt.Sprintf("NewCollector was given %d options, GetOptions returns %d", len(opts), len(col.GetOptions())))
			}
			return core.Result{Nontrivial: len(opts) > 0}
		},
	}
}

func init() {
	core.Register(&core.Check{
		ID:    "C19",
		Level: "model_checking",
		Rule:  "every sequence of Set calls (all argument strings from an 22-element alphabet incl. dotted/indexed keys, lists, objects, bare keys, empty values, malformed values) x 7 option sets x autoBool x nil/pre-filled initial config is run on a real FlagValue; after every prefix the flag's config, error state and String() are compared with the fold of NewFrom+Merge with the same options (the statement's definition) and with the tree-model fold; file flags analogously with an in-memory loader table; non-trivial = at least two Set calls; states = distinct (config, error) outcomes",
		Assumptions: []string{
			"sequences of length <=3 (quick) / <=4 (thorough)",
			"the differential oracle uses ucfg.NewFrom/Merge themselves (decided by C01/C05); the model fold applies to option sets without VarExp/field options and to keys without empty segments",
		},
		Spaces: func(tier string) []*core.Space {
			if tier == "thorough" {
				return []*core.Space{c19Collector(), c19KV("key-value-flags<=4", 4), c19Files(4)}
			}
			return []*core.Space{c19Collector(), c19KV("key-value-flags<=3", 3), c19Files(3)}
		},
	})
}
