package checks

import (
	"fmt"
	"sort"

	ucfg "github.com/elastic/go-ucfg"

	"verif/internal/core"
	"verif/internal/tree"
)

// C05, nodes that hold list entries and named settings at the same time (below the top level,
// where the generic result is one map): the unpacked result fed back in must give an
// observationally identical config - nothing of the node may get lost on the way.
func c05Mixed() *core.Space {
	type kase struct {
		text string
		in   interface{}
		sep  bool
		keys string // the settings the config has to have (sorted dotted paths)
	}
	want := func(prefix string, names []string, idxs []int, allUpTo bool) string {
		var ks []string
		if allUpTo {
			for i := 0; i <= idxs[len(idxs)-1]; i++ {
				ks = append(ks, fmt.Sprintf("%s.%d", prefix, i))
			}
		} else {
			for _, i := range idxs {
				ks = append(ks, fmt.Sprintf("%s.%d", prefix, i))
			}
		}
		for _, n := range names {
			ks = append(ks, prefix+"."+n)
		}
		sort.Strings(ks)
		return fmt.Sprint(ks)
	}
	var cases []kase
	nameSets := [][]string{{"name"}, {"name", "k"}}
	idxSets := [][]int{{0}, {0, 1}, {1}}
	for _, names := range nameSets {
		for _, idxs := range idxSets {
			// spelling 1: one map with numeric and other keys
			m := M{}
			for _, n := range names {
				m[n] = "v" + n
			}
			for _, i := range idxs {
				m[fmt.Sprint(i)] = fmt.Sprintf("e%d", i)
			}
			// spelling 2: dotted keys next to each other; spelling 3: a list plus dotted names
			dotted := func(prefix string) M {
				out := M{}
				for _, n := range names {
					out[prefix+"."+n] = "v" + n
				}
				for _, i := range idxs {
					out[fmt.Sprintf("%s.%d", prefix, i)] = fmt.Sprintf("e%d", i)
				}
				return out
			}
			listPlus := func(prefix string) M {
				out := M{}
				for _, n := range names {
					out[prefix+"."+n] = "v" + n
				}
				var l L
				for i := 0; i <= idxs[len(idxs)-1]; i++ {
					l = append(l, fmt.Sprintf("e%d", i))
				}
				out[prefix] = l
				return out
			}
			cases = append(cases,
				kase{fmt.Sprintf("{srv: %v}", m), M{"srv": m}, false, want("srv", names, idxs, false)},
				kase{fmt.Sprintf("{a: {srv: %v}}", m), M{"a": M{"srv": m}}, false, want("a.srv", names, idxs, false)},
				kase{fmt.Sprintf("{l: [%v]}", m), M{"l": L{m}}, false, want("l.0", names, idxs, false)},
				kase{fmt.Sprintf("%v with PathSep", dotted("srv")), dotted("srv"), true, want("srv", names, idxs, false)},
				kase{fmt.Sprintf("%v with PathSep", dotted("a.srv")), dotted("a.srv"), true, want("a.srv", names, idxs, false)},
				kase{fmt.Sprintf("%v with PathSep", listPlus("srv")), listPlus("srv"), true, want("srv", names, idxs, true)},
				kase{fmt.Sprintf("{a: %v} with PathSep", listPlus("srv")), M{"a": listPlus("srv")}, true, want("a.srv", names, idxs, true)},
			)
		}
	}
	return &core.Space{
		Name: "nodes-with-list-entries-and-names",
		Size: len(cases),
		Text: func(i int) string { return cases[i].text },
		Exec: func(i int) core.Result {
			k := cases[i]
			var res core.Result
			pi := core.Guard(func() {
				var opts []ucfg.Option
				if k.sep {
					opts = append(opts, ucfg.PathSep("."))
				}
				c, err := ucfg.NewFrom(k.in, opts...)
				if err != nil {
					res = core.Fail("mixed", "MIXED-REJECTED", err.Error())
					return
				}
				if v := idempotence(c, tree.New()); v != nil {
					v.Sig += " (node with list entries and names)"
					res.Viol = v
					return
				}
				// every setting is there, and still there after a round trip
				fk := c.FlattenedKeys(ucfg.PathSep("."))
				sort.Strings(fk)
				if fmt.Sprint(fk) != k.keys {
					res = core.Fail("mixed", "MIXED-KEYS-LOST on the way in", fmt.Sprintf("settings %s, expected %s", fmt.Sprint(fk), k.keys))
					return
				}
				keys := fmt.Sprint(c.FlattenedKeys(ucfg.PathSep(".")))
				m, _ := unpackGeneric(c)
				c2, _ := ucfg.NewFrom(m)
				if k2 := fmt.Sprint(c2.FlattenedKeys(ucfg.PathSep("."))); k2 != keys {
					res = core.Fail("mixed", "MIXED-KEYS-LOST", fmt.Sprintf("keys %s, after Unpack and NewFrom %s", keys, k2))
					return
				}
				res.Nontrivial = true
			})
			if pi != nil {
				return apiPanic("mixed", pi)
			}
			return res
		},
	}
}
