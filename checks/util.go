// Package checks holds one file per property (alphabet, bounds, oracle).
package checks

import (
	"fmt"
	"reflect"
	"sort"
	"strings"

	ucfg "github.com/elastic/go-ucfg"

	"verif/internal/core"
	"verif/internal/tree"
)

var policyOpt = map[tree.Policy][]ucfg.Option{
	tree.Default:    nil,
	tree.Replace:    {ucfg.ReplaceValues},
	tree.ReplaceArr: {ucfg.ReplaceArrValues},
	tree.Append:     {ucfg.AppendValues},
	tree.Prepend:    {ucfg.PrependValues},
}

var allPolicies = []tree.Policy{tree.Default, tree.Replace, tree.ReplaceArr, tree.Append, tree.Prepend}

func wrapV(n *tree.Node) *tree.Node { return tree.Dict("v", n) }

// unpackGeneric unpacks c into map[string]interface{}.
func unpackGeneric(c *ucfg.Config, opts ...ucfg.Option) (m map[string]interface{}, err error) {
	err = c.Unpack(&m, opts...)
	return
}

// canonOfConfig returns the canonical text of the generic view of c's dict part.
func canonOfConfig(c *ucfg.Config, opts ...ucfg.Option) (string, error) {
	m, err := unpackGeneric(c, opts...)
	if err != nil {
		return "", err
	}
	return tree.CanonGo(map[string]interface{}(m)), nil
}

// structRep renders a tree as a reflect.StructOf value for dict nodes (lists as
// []interface{}, leaves as they are). Keys must be lower-case identifiers.
func structRep(n *tree.Node) interface{} {
	switch n.K {
	case tree.Nil:
		return nil
	case tree.Leaf:
		return n.V
	}
	if n.HasA && len(n.D) == 0 {
		out := make([]interface{}, len(n.A))
		for i, e := range n.A {
			out[i] = structRep(e)
		}
		return out
	}
	if n.HasA {
		// mixed nodes have no struct form
		return n.ToGo()
	}
	if len(n.D) == 0 {
		return map[string]interface{}{}
	}
	keys := make([]string, 0, len(n.D))
	for k := range n.D {
		keys = append(keys, k)
	}
	sort.Strings(keys)
	var fields []reflect.StructField
	for i, k := range keys {
		f := reflect.StructField{Name: strings.ToUpper(k[:1]) + k[1:], Type: reflect.TypeOf((*interface{})(nil)).Elem()}
		if i%2 == 1 {
			f.Tag = reflect.StructTag(fmt.Sprintf(`config:"%s"`, k))
		}
		fields = append(fields, f)
	}
	st := reflect.New(reflect.StructOf(fields)).Elem()
	for i, k := range keys {
		v := structRep(n.D[k])
		if v != nil {
			st.Field(i).Set(reflect.ValueOf(v))
		}
	}
	return st.Interface()
}

func errString(err error) string {
	if err == nil {
		return "<nil>"
	}
	return err.Error()
}

// apiPanic builds the violation for a recovered panic.
func apiPanic(sub string, pi *core.PanicInfo) core.Result {
	return core.Fail(sub, "PANIC@"+pi.Where, "panic: "+pi.Val)
}

func overlap(a, b *tree.Node) bool {
	if a.K != tree.Cont || b.K != tree.Cont {
		return false
	}
	for k := range b.D {
		if _, ok := a.D[k]; ok {
			return true
		}
	}
	return len(a.A) > 0 && len(b.A) > 0
}

// mixedRadix decodes i into digits with the given radices (last varies fastest).
func mixedRadix(i int, radices ...int) []int {
	out := make([]int, len(radices))
	for k := len(radices) - 1; k >= 0; k-- {
		out[k] = i % radices[k]
		i /= radices[k]
	}
	return out
}

func product(radices ...int) int {
	p := 1
	for _, r := range radices {
		p *= r
	}
	return p
}
