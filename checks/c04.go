package checks

import (
	"errors"
	"fmt"
	"math"
	"reflect"
	"regexp"
	"strings"
	"time"

	ucfg "github.com/elastic/go-ucfg"

	"verif/internal/core"
	"verif/internal/valid"
)

// C04: a successful Unpack returns only values that satisfy every declared validator.

type c04Val struct {
	Go  interface{} // value of the field type (nil = nil pointer / nil collection)
	Cfg interface{} // how the configuration spells it (ignored for default-only values)
	// OnlyDefault: cannot be written in a configuration (nil slice/map/pointer)
	OnlyDefault bool
}

type c04Kind struct {
	Name string
	T    reflect.Type
	Vals []c04Val
	Tags []string
}

func ip(i int) *int       { return &i }
func sp(s string) *string { return &s }

var numTags = []string{"", "required", "nonzero", "positive", "min=1", "max=3", "min=1,max=3"}

func c04Kinds() []c04Kind {
	re := regexp.MustCompile
	return []c04Kind{
		{"int", reflect.TypeOf(0), []c04Val{{0, 0, false}, {2, 2, false}, {5, 5, false}, {-1, -1, false}}, numTags},
		{"uint8", reflect.TypeOf(uint8(0)), []c04Val{{uint8(0), 0, false}, {uint8(2), 2, false}, {uint8(5), 5, false}}, numTags},
		{"int64", reflect.TypeOf(int64(0)), []c04Val{{int64(0), 0, false}, {int64(9007199254740992), int64(9007199254740992), false}, {int64(9007199254740993), int64(9007199254740993), false}, {int64(-9007199254740993), int64(-9007199254740993), false}, {int64(math.MaxInt64), int64(math.MaxInt64), false}},
			[]string{"", "max=9007199254740992", "min=-9007199254740992", "min=9007199254740993", "max=9223372036854775806"}},
		{"uint64", reflect.TypeOf(uint64(0)), []c04Val{{uint64(0), 0, false}, {uint64(math.MaxUint64), uint64(math.MaxUint64), false}, {uint64(math.MaxUint64 - 1), uint64(math.MaxUint64 - 1), false}, {uint64(9007199254740993), uint64(9007199254740993), false}},
			[]string{"", "max=18446744073709551614", "min=18446744073709551615", "max=9007199254740992"}},
		{"named string", reflect.TypeOf(MyStr("")), []c04Val{{MyStr(""), "", false}, {MyStr("s"), "s", false}}, []string{"", "required", "nonzero", "min=1"}},
		{"interface{}", tIface, []c04Val{{nil, nil, true}, {"", "", false}, {"s", "s", false}}, []string{"", "required", "nonzero"}},
		{"named uint16", reflect.TypeOf(MyU16(0)), []c04Val{{MyU16(0), 0, false}, {MyU16(2), 2, false}, {MyU16(5), 5, false}}, numTags},
		{"named float32", reflect.TypeOf(MyF32(0)), []c04Val{{MyF32(0), 0.0, false}, {MyF32(2.5), 2.5, false}, {MyF32(-1.5), -1.5, false}}, numTags},
		{"named int64", reflect.TypeOf(MyI64(0)), []c04Val{{MyI64(0), 0, false}, {MyI64(2), 2, false}, {MyI64(-1), -1, false}}, numTags},
		{"float64", reflect.TypeOf(0.0), []c04Val{{0.0, 0.0, false}, {2.5, 2.5, false}, {5.5, 5.5, false}, {-1.5, -1.5, false}}, numTags},
		{"string", reflect.TypeOf(""), []c04Val{{"", "", false}, {"s", "s", false}}, []string{"", "required", "nonzero", "min=1"}},
		{"duration", reflect.TypeOf(time.Duration(0)), []c04Val{{time.Duration(0), "0s", false}, {3 * time.Second, "3s", false}, {time.Second, 1, false}, {2 * time.Minute, "2m", false}, {-time.Second, "-1s", false}, {300 * time.Millisecond, "300ms", false}, {1500 * time.Millisecond, 1.5, false}},
			[]string{"", "required", "nonzero", "positive", "min=2s", "max=1m", "min=2s,max=1m", "min=2", "max=0.5", "min=0.5", "min=1.25,max=1.75"}},
		{"[]int", reflect.TypeOf([]int(nil)), []c04Val{{[]int(nil), nil, true}, {[]int{}, L{}, false}, {[]int{1}, L{1}, false}}, []string{"", "required", "nonzero"}},
		{"map[string]int", reflect.TypeOf(map[string]int(nil)), []c04Val{{map[string]int(nil), nil, true}, {map[string]int{}, M{}, false}, {map[string]int{"a": 1}, M{"a": 1}, false}}, []string{"", "required", "nonzero"}},
		{"*int", reflect.TypeOf((*int)(nil)), []c04Val{{(*int)(nil), nil, true}, {ip(0), 0, false}, {ip(2), 2, false}, {ip(5), 5, false}, {ip(-1), -1, false}}, numTags},
		{"*string", reflect.TypeOf((*string)(nil)), []c04Val{{(*string)(nil), nil, true}, {sp(""), "", false}, {sp("s"), "s", false}}, []string{"", "required", "nonzero"}},
		{"*regexp.Regexp", reflect.TypeOf((*regexp.Regexp)(nil)), []c04Val{{(*regexp.Regexp)(nil), nil, true}, {re(""), "", false}, {re("a"), "a", false}}, []string{"", "required", "nonzero"}},
	}
}

type c04Ctx int

const (
	ctxTop c04Ctx = iota
	ctxNested
	ctxPtrStruct
	ctxSliceElem
	ctxArrayElem
	ctxMapVal
	ctxMapPtrVal
	ctxInline
	ctxInlineNested
	ctxNestedInSlice // two levels: []struct{N struct{F}}
	ctxMapOfSlices   // two levels: map[string][]struct{F}
	ctxInlineInSlice // []struct{I struct{F} `config:",inline"`}
	ctxSliceAppend   // []struct{F} `config:"l,append"`: pre-filled elements stay in front
	ctxSlicePrepend  // []struct{F} `config:"l,prepend"`: pre-filled elements move behind
	numC04Ctx
)

func (c c04Ctx) String() string {
	return [...]string{"top level", "nested struct", "*struct", "[]struct element", "[2]struct element", "map[string]struct value", "map[string]*struct value", "inline struct", "struct in inline struct", "struct in []struct element", "[]struct element in map value", "inline struct in []struct element", "[]struct element, append", "[]struct element, prepend"}[c]
}

func (c c04Ctx) path() string {
	return [...]string{"f", "n.f", "n.f", "l.0.f", "l.0.f", "m.k.f", "m.k.f", "f", "n.f", "l.0.n.f", "m.k.0.f", "l.0.f", "l.1.f", "l.0.f"}[c]
}

// inner: struct{F FT `validate`; Other int}
func c04Inner(k c04Kind, tag string) reflect.Type {
	return reflect.StructOf([]reflect.StructField{
		{Name: "F", Type: k.T, Tag: reflect.StructTag(fmt.Sprintf(`validate:"%s"`, tag))},
		{Name: "Other", Type: reflect.TypeOf(0)},
	})
}

func sf(name string, t reflect.Type, tag string) reflect.StructField {
	return reflect.StructField{Name: name, Type: t, Tag: reflect.StructTag(tag)}
}

func st(fields ...reflect.StructField) reflect.Type { return reflect.StructOf(fields) }

// outer type for a context
func (c c04Ctx) typ(inner reflect.Type) reflect.Type {
	str := reflect.TypeOf("")
	switch c {
	case ctxTop:
		return inner
	case ctxNested:
		return st(sf("N", inner, ""))
	case ctxPtrStruct:
		return st(sf("N", reflect.PtrTo(inner), ""))
	case ctxSliceElem:
		return st(sf("L", reflect.SliceOf(inner), ""))
	case ctxArrayElem:
		return st(sf("L", reflect.ArrayOf(1, inner), ""))
	case ctxMapVal:
		return st(sf("M", reflect.MapOf(str, inner), ""))
	case ctxMapPtrVal:
		return st(sf("M", reflect.MapOf(str, reflect.PtrTo(inner)), ""))
	case ctxInline:
		return st(sf("I", inner, `config:",inline"`))
	case ctxInlineNested:
		return st(sf("I", st(sf("N", inner, "")), `config:",inline"`))
	case ctxNestedInSlice:
		return st(sf("L", reflect.SliceOf(st(sf("N", inner, ""))), ""))
	case ctxMapOfSlices:
		return st(sf("M", reflect.MapOf(str, reflect.SliceOf(inner)), ""))
	case ctxInlineInSlice:
		return st(sf("L", reflect.SliceOf(st(sf("I", inner, `config:",inline"`))), ""))
	case ctxSliceAppend:
		return st(sf("L", reflect.SliceOf(inner), `config:"l,append"`))
	case ctxSlicePrepend:
		return st(sf("L", reflect.SliceOf(inner), `config:"l,prepend"`))
	}
	panic("ctx")
}

// locate returns the inner struct value inside an outer value (allocating defaults when create is set).
func (c c04Ctx) locate(outer reflect.Value, create bool) (reflect.Value, bool) {
	deref := func(v reflect.Value) (reflect.Value, bool) {
		if v.Kind() == reflect.Ptr {
			if v.IsNil() {
				if !create {
					return v, false
				}
				v.Set(reflect.New(v.Type().Elem()))
			}
			return v.Elem(), true
		}
		return v, true
	}
	switch c {
	case ctxTop:
		return outer, true
	case ctxNested, ctxPtrStruct:
		return deref(outer.Field(0))
	case ctxSliceElem, ctxNestedInSlice, ctxInlineInSlice, ctxSliceAppend, ctxSlicePrepend:
		l := outer.Field(0)
		if l.Len() == 0 {
			if !create {
				return l, false
			}
			l.Set(reflect.MakeSlice(l.Type(), 1, 1))
		}
		e := l.Index(0)
		if c == ctxNestedInSlice || c == ctxInlineInSlice {
			return e.Field(0), true
		}
		return e, true
	case ctxArrayElem:
		return outer.Field(0).Index(0), true
	case ctxMapVal, ctxMapPtrVal, ctxMapOfSlices:
		m := outer.Field(0)
		key := reflect.ValueOf("k")
		if m.IsNil() || !m.MapIndex(key).IsValid() {
			if !create {
				return m, false
			}
			if m.IsNil() {
				m.Set(reflect.MakeMap(m.Type()))
			}
			var nv reflect.Value
			switch c {
			case ctxMapPtrVal:
				nv = reflect.New(m.Type().Elem().Elem())
			case ctxMapOfSlices:
				nv = reflect.MakeSlice(m.Type().Elem(), 1, 1)
			default:
				nv = reflect.New(m.Type().Elem()).Elem()
			}
			m.SetMapIndex(key, nv)
		}
		e := m.MapIndex(key)
		switch c {
		case ctxMapPtrVal:
			return e.Elem(), true
		case ctxMapOfSlices:
			return e.Index(0), true
		}
		// map values are not addressable: work on a copy (callers that write use setInMap)
		cp := reflect.New(e.Type()).Elem()
		cp.Set(e)
		return cp, true
	case ctxInline:
		return outer.Field(0), true
	case ctxInlineNested:
		return outer.Field(0).Field(0), true
	}
	panic("locate")
}

// nestCfg builds the configuration that places inner settings at the context's location.
func (c c04Ctx) nestCfg(inner M) M {
	switch c {
	case ctxTop, ctxInline:
		return inner
	case ctxNested, ctxPtrStruct, ctxInlineNested:
		return M{"n": inner}
	case ctxSliceElem, ctxArrayElem, ctxInlineInSlice, ctxSliceAppend, ctxSlicePrepend:
		return M{"l": L{inner}}
	case ctxMapVal, ctxMapPtrVal:
		return M{"m": M{"k": inner}}
	case ctxNestedInSlice:
		return M{"l": L{M{"n": inner}}}
	case ctxMapOfSlices:
		return M{"m": M{"k": L{inner}}}
	}
	panic("nest")
}

type c04CfgMode int

const (
	cfgAbsentAll c04CfgMode = iota // the configuration does not mention the location at all
	cfgAbsent                      // the enclosing object is there, f is not
	cfgNil                         // f: nil
	cfgValue                       // f: value
	cfgRef                         // f: ${ref} with ref: value
)

func c04Space(name string, ctxs []c04Ctx) *core.Space {
	kinds := c04Kinds()
	type cs struct {
		k      int
		tag    int
		ctx    c04Ctx
		mode   c04CfgMode
		cfgVal int // index into kind values
		def    int // index into kind values, -1 = no pre-filled element/zero
	}
	var cases []cs
	for ki, k := range kinds {
		for ti := range k.Tags {
			for _, ctx := range ctxs {
				for def := -1; def < len(k.Vals); def++ {
					for _, mode := range []c04CfgMode{cfgAbsentAll, cfgAbsent, cfgNil} {
						cases = append(cases, cs{ki, ti, ctx, mode, -1, def})
					}
					for vi, v := range k.Vals {
						if v.OnlyDefault {
							continue
						}
						cases = append(cases, cs{ki, ti, ctx, cfgValue, vi, def}, cs{ki, ti, ctx, cfgRef, vi, def})
					}
				}
			}
		}
	}
	text := func(c cs) string {
		k := kinds[c.k]
		cfg := [...]string{"location absent from the config", "f absent", "f: nil", "", ""}[c.mode]
		if c.mode == cfgValue {
			cfg = fmt.Sprintf("f: %v", k.Vals[c.cfgVal].Cfg)
		} else if c.mode == cfgRef {
			cfg = fmt.Sprintf("f: ${ref} with ref: %v", k.Vals[c.cfgVal].Cfg)
		}
		def := "no pre-filled value"
		if c.def >= 0 {
			def = fmt.Sprintf("pre-filled F=%s", showVal(k.Vals[c.def].Go))
		}
		return fmt.Sprintf("field F %s `validate:%q` in %v; config: %s; %s", k.Name, k.Tags[c.tag], c.ctx, cfg, def)
	}
	return &core.Space{
		Name: name,
		Size: len(cases),
		Text: func(i int) string { return text(cases[i]) },
		Exec: func(i int) core.Result {
			c := cases[i]
			k := kinds[c.k]
			tag := k.Tags[c.tag]
			var res core.Result
			pi := core.Guard(func() {
				inner := c04Inner(k, tag)
				outerT := c.ctx.typ(inner)
				target := reflect.New(outerT)
				outer := target.Elem()
				// pre-fill the default
				hasDefault := c.def >= 0
				if hasDefault {
					c04SetF(c.ctx, outer, c04RV(k, k.Vals[c.def].Go), k.T)
				}
				// configuration
				var cfgMap M
				opts := []ucfg.Option{ucfg.PathSep("."), ucfg.VarExp}
				switch c.mode {
				case cfgAbsentAll:
					cfgMap = M{"unrelated": 1}
				case cfgAbsent:
					cfgMap = c.ctx.nestCfg(M{"other": 1})
				case cfgNil:
					cfgMap = c.ctx.nestCfg(M{"other": 1, "f": nil})
				case cfgValue:
					cfgMap = c.ctx.nestCfg(M{"other": 1, "f": k.Vals[c.cfgVal].Cfg})
				case cfgRef:
					cfgMap = c.ctx.nestCfg(M{"other": 1, "f": "${ref}"})
					cfgMap["ref"] = k.Vals[c.cfgVal].Cfg
				}
				cfg, err := ucfg.NewFrom(cfgMap, opts...)
				if err != nil {
					res = core.Fail("validate", "BUILD", err.Error())
					return
				}
				// expected final value of F
				var expF reflect.Value
				exists := true
				switch {
				case c.mode == cfgValue || c.mode == cfgRef:
					expF = c04RV(k, k.Vals[c.cfgVal].Go)
				case hasDefault:
					expF = c04RV(k, k.Vals[c.def].Go)
				case c.mode == cfgAbsentAll && c.ctx != ctxTop && c.ctx != ctxNested && c.ctx != ctxInline && c.ctx != ctxInlineNested && c.ctx != ctxArrayElem:
					exists = false // no element / nil pointer: F does not exist in the result
				default:
					expF = reflect.Zero(k.T)
				}
				if (c.mode == cfgValue || c.mode == cfgRef) && hasDefault && (k.Name == "[]int" || k.Name == "map[string]int") {
					// collections merge with the pre-filled value: keep to the union's emptiness
					d := c04RV(k, k.Vals[c.def].Go)
					if d.Len() > expF.Len() {
						expF = d
					}
				}
				if exists && !expF.IsValid() {
					expF = reflect.Zero(k.T) // a nil interface value
				}
				predicted := false
				which := ""
				if exists {
					predicted, which = valid.TagViolated(tag, expF)
				}
				if (c.ctx == ctxSliceAppend || c.ctx == ctxSlicePrepend) && hasDefault && c.mode != cfgAbsentAll {
					// the pre-filled element is kept next to the element from the configuration
					cfgF := reflect.Zero(k.T)
					if c.mode == cfgValue || c.mode == cfgRef {
						cfgF = c04RV(k, k.Vals[c.cfgVal].Go)
					}
					p1, w1 := valid.TagViolated(tag, cfgF)
					p2, w2 := valid.TagViolated(tag, c04RV(k, k.Vals[c.def].Go))
					predicted, which = p1 || p2, w1+w2
					if p2 && !p1 {
						expF = c04RV(k, k.Vals[c.def].Go)
					}
				}
				uerr := cfg.Unpack(target.Interface(), opts...)
				sig := fmt.Sprintf("%s %q cfg=%s default=%v", k.Name, tagClass(tag), [...]string{"location-absent", "f-absent", "nil", "value", "ref"}[c.mode], hasDefault)
				if uerr == nil {
					if v := valid.Check(outer, "validate"); v != nil {
						res = core.Fail("validate", "INVALID-RESULT-ACCEPTED "+sig, fmt.Sprintf("Unpack returned nil but the result violates a validator: %s (result %+v)", v, outer.Interface()))
						return
					}
					if predicted {
						res = core.Fail("validate", "VIOLATION-NOT-REPORTED "+sig, fmt.Sprintf("F=%s violates %q, Unpack returned nil (result %+v)", showVal(expF.Interface()), which, outer.Interface()))
						return
					}
					res.Outcome = "accepted"
				} else {
					res.Outcome = "rejected"
					if predicted {
						// the error must name the field
						msg := uerr.Error()
						path := c.ctx.path()
						fromCfg := (c.mode == cfgValue || c.mode == cfgRef) && c.ctx != ctxSliceAppend && c.ctx != ctxSlicePrepend
						if c.mode == cfgRef && strings.Contains(msg, "'ref'") {
							// the error names the setting that holds the offending value
						} else if !namesField(msg, path, fromCfg) {
							res = core.Fail("validate", "ERROR-DOES-NOT-NAME-FIELD "+sig, fmt.Sprintf("F at %q violates %q; error: %s", path, which, firstLine(msg)))
							return
						}
					}
				}
				res.Nontrivial = tag != "" && exists
			})
			if pi != nil {
				return apiPanic("validate", pi)
			}
			return res
		},
	}
}

// c04RV: reflect value of a menu value (a nil interface value becomes the zero value of the kind).
func c04RV(k c04Kind, v interface{}) reflect.Value {
	if v == nil {
		return reflect.Zero(k.T)
	}
	return reflect.ValueOf(v)
}

func tagClass(tag string) string {
	if i := strings.IndexAny(tag, "=,"); i > 0 {
		return tag[:i]
	}
	return tag
}

func namesField(msg, path string, full bool) bool {
	if strings.Contains(msg, "'"+path+"'") {
		return true
	}
	if full {
		return false
	}
	// value came from a default: the field (at least by its own name - the enclosing object
	// may not exist in the configuration) or the nearest enclosing setting
	segs := strings.Split(path, ".")
	last := segs[len(segs)-1]
	if strings.Contains(msg, "'"+last+"'") || strings.Contains(msg, "."+last+"'") {
		return true
	}
	for i := len(segs) - 1; i >= 1; i-- {
		if strings.Contains(msg, "'"+strings.Join(segs[:i], ".")+"'") {
			return true
		}
	}
	return strings.Contains(msg, "accessing config")
}

func showVal(v interface{}) string {
	rv := reflect.ValueOf(v)
	if !rv.IsValid() {
		return "nil"
	}
	if rv.Kind() == reflect.Ptr {
		if rv.IsNil() {
			return "nil"
		}
		if r, ok := v.(*regexp.Regexp); ok {
			return fmt.Sprintf("regexp(%q)", r.String())
		}
		return fmt.Sprintf("&%v", rv.Elem().Interface())
	}
	if (rv.Kind() == reflect.Slice || rv.Kind() == reflect.Map) && rv.IsNil() {
		return "nil"
	}
	return fmt.Sprintf("%v", v)
}

// c04SetF stores v into field F at the context's location (creating elements).
func c04SetF(ctx c04Ctx, outer, v reflect.Value, ft reflect.Type) {
	if !v.IsValid() {
		v = reflect.Zero(ft)
	}
	switch ctx {
	case ctxMapVal:
		m := outer.Field(0)
		if m.IsNil() {
			m.Set(reflect.MakeMap(m.Type()))
		}
		e := reflect.New(m.Type().Elem()).Elem()
		e.Field(0).Set(v)
		e.Field(1).SetInt(7)
		m.SetMapIndex(reflect.ValueOf("k"), e)
		return
	}
	in, _ := ctx.locate(outer, true)
	in.Field(0).Set(v)
	in.Field(1).SetInt(7)
}

// ---- Validate() and InitDefaults() catalogue ----

type vInt int

func (v vInt) Validate() error {
	if v == 13 {
		return errors.New("13 is not allowed")
	}
	return nil
}

type vStruct struct{ A int }

func (v vStruct) Validate() error {
	if v.A == 13 {
		return errors.New("A=13 is not allowed")
	}
	return nil
}

type vPtrStruct struct{ A int }

func (v *vPtrStruct) Validate() error {
	if v.A == 13 {
		return errors.New("A=13 is not allowed")
	}
	return nil
}

type vMap map[string]int

func (v vMap) Validate() error {
	if _, bad := v["bad"]; bad {
		return errors.New("key bad is not allowed")
	}
	return nil
}

type vList []int

func (v vList) Validate() error {
	if len(v) > 2 {
		return errors.New("too long")
	}
	return nil
}

// a list / a map that must not be empty (nil included)
type neList []string

func (l neList) Validate() error {
	if len(l) == 0 {
		return errors.New("at least one entry is needed")
	}
	return nil
}

type neMap map[string]int

func (m neMap) Validate() error {
	if len(m) == 0 {
		return errors.New("at least one entry is needed")
	}
	return nil
}

// a struct whose fields carry tag validators (no Validate method)
type tagged struct {
	A int `validate:"min=1"`
}

type dGood struct {
	A int `validate:"min=1"`
}

func (d *dGood) InitDefaults() { d.A = 5 }

type dBad struct {
	A int `validate:"min=1"`
}

func (d *dBad) InitDefaults() { d.A = 0 }

// map types that provide their defaults through InitDefaults
type dLimit struct {
	Max int `config:"max" validate:"min=1"`
}

type dLimits map[string]dLimit

func (l dLimits) InitDefaults() { l["default"] = dLimit{} } // max=0 violates min=1

type dWeights map[string]vInt

func (w *dWeights) InitDefaults() { (*w)["fallback"] = 13 } // rejected by vInt.Validate

type dGoodLimits map[string]dLimit

func (l dGoodLimits) InitDefaults() { l["default"] = dLimit{Max: 4} }

// a named primitive whose Validate has a pointer receiver
type vPtrInt int

func (v *vPtrInt) Validate() error {
	if *v == 13 {
		return errors.New("13 is not allowed")
	}
	return nil
}

type dPorts map[string]vPtrInt

func (p dPorts) InitDefaults() { p["fallback"] = 13 }

// a primitive that unpacks itself, one that initialises itself
type uInt int

func (u *uInt) Unpack(v int64) error { *u = uInt(v); return nil }

type uvInt int

func (u *uvInt) Unpack(v int64) error { *u = uvInt(v); return nil }
func (u *uvInt) Validate() error {
	if *u == 13 {
		return errors.New("13 is not allowed")
	}
	return nil
}

type iInt int

func (i *iInt) InitDefaults() { *i = 2 }

type c04CatCase struct {
	Name    string
	Target  func() interface{}
	Cfg     interface{} // M or L
	WantErr bool
}

func c04Catalogue() *core.Space {
	type W1 struct{ X vInt }
	type W2 struct{ X vStruct }
	type W3 struct{ X vPtrStruct }
	type W3p struct{ X *vPtrStruct }
	type W4 struct{ X vMap }
	type W5 struct{ X vList }
	type W6 struct{ L []vStruct }
	type W7 struct{ M map[string]vPtrStruct }
	type W8 struct{ M map[string]*vPtrStruct }
	type W9 struct {
		I vStruct `config:",inline"`
	}
	type D1 struct{ X dGood }
	type D2 struct{ X dBad }
	type D3 struct{ X *dBad }
	type D4 struct{ L []dBad }
	type IL1 struct {
		L     []int `config:",inline" validate:"required"`
		Other string
	}
	type IL2 struct {
		L []int `config:",inline" validate:"nonzero"`
	}
	type IL3 struct {
		N struct {
			L []string `config:",inline" validate:"required"`
		}
	}
	type U1 struct {
		X uInt `validate:"min=5"`
	}
	type U2 struct{ X uvInt }
	type U3 struct{ X *uvInt }
	type I1 struct {
		X iInt `validate:"min=5"`
	}
	type N1 struct{ Xs []vInt }
	type N2 struct{ M map[string]vInt }
	type N3 struct {
		Xs []int `validate:"min=1"`
	}
	type IM1 struct {
		M map[string]int `config:",inline" validate:"required"`
	}
	type IF1 struct{ X interface{} }
	type P1 struct{ L []vPtrInt }
	type P2 struct{ M map[string]vPtrInt }
	type P3 struct{ A [2]vPtrInt }
	type P4 struct{ P *struct{ L []vPtrInt } }
	type P5 struct{ X vPtrInt }
	type P6 struct{ Ports dPorts }
	type D5 struct{ Limits dLimits }
	type D6 struct{ Weights dWeights }
	type D7 struct{ Limits dGoodLimits }
	type NE1 struct{ Hosts neList }
	type NE2 struct{ Ports neMap }
	type NE3 struct{ L []neList }
	type NE4 struct{ M map[string]neMap }
	type IF2 struct{ X []interface{} }
	type IF3 struct{ X map[string]interface{} }
	type PM1 struct {
		P *map[string]int `validate:"nonzero"`
	}
	type PM2 struct {
		P **map[string]int `validate:"nonzero"`
	}
	type PM3 struct {
		P *[]int `validate:"nonzero"`
	}
	cases := []c04CatCase{
		{"list type whose Validate rejects the empty list: setting absent (nil list)", func() interface{} { return &NE1{} }, M{"y": 1}, true},
		{"list type whose Validate rejects the empty list: explicit null", func() interface{} { return &NE1{} }, M{"hosts": nil}, true},
		{"list type whose Validate rejects the empty list: entries present", func() interface{} { return &NE1{} }, M{"hosts": L{"h"}}, false},
		{"map type whose Validate rejects the empty map: setting absent (nil map)", func() interface{} { return &NE2{} }, M{"y": 1}, true},
		{"map type whose Validate rejects the empty map: entries present", func() interface{} { return &NE2{} }, M{"ports": M{"a": 1}}, false},
		{"nil list of such a type inside a pre-filled list, field absent from the config", func() interface{} { return &NE3{L: []neList{{"h"}, nil}} }, M{"y": 1}, true},
		{"nil map of such a type inside a pre-filled map, field absent from the config", func() interface{} { return &NE4{M: map[string]neMap{"k": nil}} }, M{"y": 1}, true},
		{"interface{} field pre-filled with a struct whose tag validator fails, absent from the config", func() interface{} { return &IF1{X: tagged{0}} }, M{"y": 1}, true},
		{"interface{} field pre-filled with a pointer to a struct whose tag validator fails", func() interface{} { return &IF1{X: &tagged{0}} }, M{"y": 1}, true},
		{"interface{} field pre-filled with a valid tagged struct", func() interface{} { return &IF1{X: tagged{2}} }, M{"y": 1}, false},
		{"interface{} field pre-filled with a list holding a struct whose tag validator fails", func() interface{} { return &IF1{X: []tagged{{2}, {0}}} }, M{"y": 1}, true},
		{"interface{} field pre-filled with a map holding a struct whose Validate fails", func() interface{} { return &IF1{X: map[string]vStruct{"k": {13}}} }, M{"y": 1}, true},
		{"[]interface{} pre-filled with a struct whose tag validator fails, absent from the config", func() interface{} { return &IF2{X: []interface{}{tagged{2}, &tagged{0}}} }, M{"y": 1}, true},
		{"map[string]interface{} pre-filled with a struct whose tag validator fails, absent from the config", func() interface{} { return &IF3{X: map[string]interface{}{"k": tagged{0}}} }, M{"y": 1}, true},
		{"top-level map[string]interface{} pre-filled with a struct whose tag validator fails, key absent from the config", func() interface{} { return &map[string]interface{}{"k": &tagged{0}} }, M{"y": 1}, true},
		{"nil pointer to a map with nonzero: empty object", func() interface{} { return &PM1{} }, M{"p": M{}}, true},
		{"nil pointer to a map with nonzero: entries present", func() interface{} { return &PM1{} }, M{"p": M{"a": 1}}, false},
		{"nil pointer to a pointer to a map with nonzero: empty object", func() interface{} { return &PM2{} }, M{"p": M{}}, true},
		{"nil pointer to a list with nonzero: empty list", func() interface{} { return &PM3{} }, M{"p": L{}}, true},
		{"vInt ok", func() interface{} { return &W1{} }, M{"x": 1}, false},
		{"vInt rejected from config", func() interface{} { return &W1{} }, M{"x": 13}, true},
		{"vInt rejected from default", func() interface{} { return &W1{X: 13} }, M{"y": 1}, true},
		{"vStruct ok", func() interface{} { return &W2{} }, M{"x": M{"a": 1}}, false},
		{"vStruct rejected from config", func() interface{} { return &W2{} }, M{"x": M{"a": 13}}, true},
		{"vStruct rejected from default", func() interface{} { return &W2{X: vStruct{13}} }, M{"y": 1}, true},
		{"vStruct default overwritten by valid config", func() interface{} { return &W2{X: vStruct{13}} }, M{"x": M{"a": 1}}, false},
		{"vPtrStruct (pointer receiver) rejected from config", func() interface{} { return &W3{} }, M{"x": M{"a": 13}}, true},
		{"vPtrStruct (pointer receiver) rejected from default", func() interface{} { return &W3{X: vPtrStruct{13}} }, M{"y": 1}, true},
		{"*vPtrStruct rejected from config", func() interface{} { return &W3p{} }, M{"x": M{"a": 13}}, true},
		{"*vPtrStruct rejected from default", func() interface{} { return &W3p{X: &vPtrStruct{13}} }, M{"y": 1}, true},
		{"*vPtrStruct nil default accepted", func() interface{} { return &W3p{} }, M{"y": 1}, false},
		{"vMap rejected from config", func() interface{} { return &W4{} }, M{"x": M{"bad": 1}}, true},
		{"vMap ok", func() interface{} { return &W4{} }, M{"x": M{"good": 1}}, false},
		{"vMap rejected from default", func() interface{} { return &W4{X: vMap{"bad": 1}} }, M{"y": 1}, true},
		{"vMap rejected: default entry survives the merge", func() interface{} { return &W4{X: vMap{"bad": 1}} }, M{"x": M{"good": 1}}, true},
		{"vList rejected from config", func() interface{} { return &W5{} }, M{"x": L{1, 2, 3}}, true},
		{"vList ok", func() interface{} { return &W5{} }, M{"x": L{1}}, false},
		{"vList rejected from default", func() interface{} { return &W5{X: vList{1, 2, 3}} }, M{"y": 1}, true},
		{"[]vStruct element rejected from config", func() interface{} { return &W6{} }, M{"l": L{M{"a": 1}, M{"a": 13}}}, true},
		{"[]vStruct untouched default element rejected", func() interface{} { return &W6{L: []vStruct{{1}, {13}}} }, M{"l": L{M{"a": 2}}}, true},
		{"[]vStruct default element rejected, list not in config", func() interface{} { return &W6{L: []vStruct{{13}}} }, M{"y": 1}, true},
		{"map[string]vPtrStruct value rejected from config", func() interface{} { return &W7{} }, M{"m": M{"k": M{"a": 13}}}, true},
		{"map[string]vPtrStruct default value rejected", func() interface{} { return &W7{M: map[string]vPtrStruct{"d": {13}}} }, M{"m": M{"k": M{"a": 1}}}, true},
		{"map[string]*vPtrStruct value rejected from config", func() interface{} { return &W8{} }, M{"m": M{"k": M{"a": 13}}}, true},
		{"map[string]*vPtrStruct default value rejected", func() interface{} { return &W8{M: map[string]*vPtrStruct{"d": {13}}} }, M{"y": 1}, true},
		{"inline vStruct rejected from config", func() interface{} { return &W9{} }, M{"a": 13}, true},
		{"inline vStruct rejected from default", func() interface{} { return &W9{I: vStruct{13}} }, M{"y": 1}, true},
		{"InitDefaults valid default accepted", func() interface{} { return &D1{} }, M{"y": 1}, false},
		{"InitDefaults invalid default rejected", func() interface{} { return &D2{} }, M{"y": 1}, true},
		{"InitDefaults invalid default rejected (object given, field not)", func() interface{} { return &D2{} }, M{"x": M{"b": 1}}, true},
		{"InitDefaults invalid default repaired by config", func() interface{} { return &D2{} }, M{"x": M{"a": 3}}, false},
		{"InitDefaults behind nil pointer, not in config: not created", func() interface{} { return &D3{} }, M{"y": 1}, false},
		{"InitDefaults behind pointer, object in config: invalid default rejected", func() interface{} { return &D3{} }, M{"x": M{"b": 1}}, true},
		{"InitDefaults in slice elements is not supported: zero element violates min=1", func() interface{} { return &D4{} }, M{"l": L{M{"b": 1}}}, true},
		{"map InitDefaults adds an invalid struct entry, config sets another key", func() interface{} { return &D5{} }, M{"limits": M{"custom": M{"max": 5}}}, true},
		{"map InitDefaults adds an invalid struct entry, pre-allocated map", func() interface{} { return &D5{Limits: dLimits{}} }, M{"limits": M{"custom": M{"max": 5}}}, true},
		{"map InitDefaults invalid entry replaced by a valid setting", func() interface{} { return &D5{} }, M{"limits": M{"default": M{"max": 2}}}, false},
		{"map InitDefaults adds an entry its Validate rejects, pre-allocated map", func() interface{} { return &D6{Weights: dWeights{}} }, M{"weights": M{"a": 3}}, true},
		{"map InitDefaults invalid Validate entry replaced by a valid setting", func() interface{} { return &D6{Weights: dWeights{}} }, M{"weights": M{"fallback": 3}}, false},
		{"map InitDefaults adds a valid entry", func() interface{} { return &D7{} }, M{"limits": M{"custom": M{"max": 5}}}, false},
		{"inlined list with required: no list entries in the config", func() interface{} { return &IL1{} }, M{"other": "x"}, true},
		{"inlined list with required: entries present", func() interface{} { return &IL1{} }, L{1, 2}, false},
		{"inlined list with nonzero: pre-filled empty list, empty config", func() interface{} { return &IL2{L: []int{}} }, M{}, true},
		{"inlined list with nonzero: entries present", func() interface{} { return &IL2{} }, L{3}, false},
		{"inlined list with required, nested: object without entries", func() interface{} { return &IL3{} }, M{"n": M{"x": 1}}, true},
		{"self-unpacking primitive with a tag validator: config value violates it", func() interface{} { return &U1{} }, M{"x": 3}, true},
		{"self-unpacking primitive with a tag validator: valid", func() interface{} { return &U1{} }, M{"x": 7}, false},
		{"self-unpacking primitive with Validate (value field): rejected value", func() interface{} { return &U2{} }, M{"x": 13}, true},
		{"self-unpacking primitive with Validate (pointer field): rejected value", func() interface{} { return &U3{} }, M{"x": 13}, true},
		{"primitive with InitDefaults and a tag validator, absent from the config", func() interface{} { return &I1{} }, M{"y": 1}, true},
		{"explicit null element of a list of validating elements", func() interface{} { return &N1{} }, M{"xs": L{1, 13}}, true},
		{"explicit null entry of a map of validating elements (zero is fine for vInt)", func() interface{} { return &N2{} }, M{"m": M{"a": nil}}, false},
		{"inlined map with required: empty config", func() interface{} { return &IM1{} }, M{}, true},
		{"interface{} field pre-filled with a struct whose Validate fails, absent from the config", func() interface{} { return &IF1{X: vStruct{13}} }, M{"y": 1}, true},
		{"interface{} field pre-filled with a pointer to a struct whose Validate fails", func() interface{} { return &IF1{X: &vPtrStruct{13}} }, M{"y": 1}, true},
		{"pointer-receiver Validate: field from config rejected", func() interface{} { return &P5{} }, M{"x": 13}, true},
		{"pointer-receiver Validate: pre-filled field rejected", func() interface{} { return &P5{X: 13} }, M{"y": 1}, true},
		{"pointer-receiver Validate: slice element from config rejected", func() interface{} { return &P1{} }, M{"l": L{1, 13}}, true},
		{"pointer-receiver Validate: pre-filled slice element rejected, field absent from config", func() interface{} { return &P1{L: []vPtrInt{1, 13}} }, M{"y": 1}, true},
		{"pointer-receiver Validate: pre-filled map value rejected, field absent from config", func() interface{} { return &P2{M: map[string]vPtrInt{"k": 13}} }, M{"y": 1}, true},
		{"pointer-receiver Validate: pre-filled array element rejected, field absent from config", func() interface{} { return &P3{A: [2]vPtrInt{1, 13}} }, M{"y": 1}, true},
		{"pointer-receiver Validate: slice below a pre-filled pointer that receives no setting", func() interface{} { return &P4{P: &struct{ L []vPtrInt }{L: []vPtrInt{13}}} }, M{"y": 1}, true},
		{"pointer-receiver Validate: valid pre-filled elements accepted", func() interface{} { return &P1{L: []vPtrInt{1, 2}} }, M{"y": 1}, false},
		{"pointer-receiver Validate: untouched pre-filled tail element rejected", func() interface{} { return &P1{L: []vPtrInt{1, 13}} }, M{"l": L{2}}, true},
		{"map InitDefaults adds an entry rejected by a pointer-receiver Validate, field absent from config (the map is created and initialised all the same)", func() interface{} { return &P6{} }, M{"y": 1}, true},
		{"map InitDefaults adds an entry rejected by a pointer-receiver Validate, pre-allocated map", func() interface{} { return &P6{Ports: dPorts{}} }, M{"y": 1}, true},
		{"top-level map with InitDefaults adding an invalid entry", func() interface{} { m := dLimits{}; return &m }, M{"custom": M{"max": 5}}, true},
	}
	return &core.Space{
		Name:   "validate-and-initdefaults-catalogue",
		Size:   len(cases),
		InProc: false,
		Text:   func(i int) string { return fmt.Sprintf("%s: config %v", cases[i].Name, cases[i].Cfg) },
		Exec: func(i int) core.Result {
			c := cases[i]
			var res core.Result
			pi := core.Guard(func() {
				cfg, err := ucfg.NewFrom(c.Cfg)
				if err != nil {
					res = core.Fail("catalogue", "BUILD", err.Error())
					return
				}
				t := c.Target()
				uerr := cfg.Unpack(t)
				if uerr == nil {
					if v := valid.Check(reflect.ValueOf(t), "validate"); v != nil {
						res = core.Fail("catalogue", "INVALID-RESULT-ACCEPTED catalogue: "+c.Name, fmt.Sprintf("%s: Unpack returned nil, result %+v violates: %s", c.Name, reflect.ValueOf(t).Elem().Interface(), v))
						return
					}
				}
				if c.WantErr != (uerr != nil) {
					res = core.Fail("catalogue", "CATALOGUE-EXPECTATION: "+c.Name, fmt.Sprintf("%s: expected error=%v, Unpack returned %v", c.Name, c.WantErr, uerr))
					return
				}
				res.Nontrivial = true
			})
			if pi != nil {
				return apiPanic("catalogue", pi)
			}
			return res
		},
	}
}

// c04TagSequences: the ValidatorTag option selects which struct tag holds the validators. Every case
// unpacks the same configuration twice into (fresh values of) one struct type whose field carries two
// different validator lists under the tags `validate` and `strict`, once per tag name, in both orders;
// the type is unique to the case (a marker field), so nothing a case leaves behind in the process can
// influence another case.
func c04TagSequences() *core.Space {
	vals := []int{-1, 0, 2, 5}
	orders := [][2]string{{"validate", "strict"}, {"strict", "validate"}, {"validate", "validate"}, {"strict", "strict"}}
	radices := []int{len(numTags), len(numTags), len(vals), len(orders), 2}
	return &core.Space{
		Name: "validator-tag-option-sequences",
		Size: product(radices...),
		Text: func(i int) string {
			d := mixedRadix(i, radices...)
			return fmt.Sprintf("field F int `validate:%q strict:%q` (%s), config f: %d, Unpack with ValidatorTag(%q) then ValidatorTag(%q)", numTags[d[0]], numTags[d[1]], []string{"top level", "in a slice element"}[d[4]], vals[d[2]], orders[d[3]][0], orders[d[3]][1])
		},
		Exec: func(i int) core.Result {
			d := mixedRadix(i, radices...)
			tags := map[string]string{"validate": numTags[d[0]], "strict": numTags[d[1]]}
			var res core.Result
			pi := core.Guard(func() {
				inner := reflect.StructOf([]reflect.StructField{
					{Name: "F", Type: reflect.TypeOf(0), Tag: reflect.StructTag(fmt.Sprintf(`validate:"%s" strict:"%s"`, tags["validate"], tags["strict"]))},
					{Name: fmt.Sprintf("Marker%d", i), Type: reflect.TypeOf(0)},
				})
				outerT := inner
				cfgMap := M{"f": vals[d[2]]}
				if d[4] == 1 {
					outerT = st(sf("L", reflect.SliceOf(inner), ""))
					cfgMap = M{"l": L{M{"f": vals[d[2]]}}}
				}
				cfg, err := ucfg.NewFrom(cfgMap)
				if err != nil {
					res = core.Fail("tagseq", "BUILD", err.Error())
					return
				}
				for step, tagName := range orders[d[3]] {
					target := reflect.New(outerT)
					uerr := cfg.Unpack(target.Interface(), ucfg.ValidatorTag(tagName))
					predicted, which := valid.TagViolated(tags[tagName], reflect.ValueOf(vals[d[2]]))
					sig := fmt.Sprintf("VALIDATOR-TAG-OPTION step%d", step+1)
					if uerr == nil && predicted {
						res = core.Fail("tagseq", sig+" violation-not-reported", fmt.Sprintf("call %d with ValidatorTag(%q): F=%d violates %q, Unpack returned nil", step+1, tagName, vals[d[2]], which))
						return
					}
					if uerr != nil && !predicted {
						res = core.Fail("tagseq", sig+" valid-value-rejected", fmt.Sprintf("call %d with ValidatorTag(%q): F=%d satisfies %q, Unpack returned %s", step+1, tagName, vals[d[2]], tags[tagName], firstLine(uerr.Error())))
						return
					}
					if uerr == nil {
						if v := valid.Check(target.Elem(), tagName); v != nil {
							res = core.Fail("tagseq", sig+" invalid-result-accepted", fmt.Sprintf("call %d with ValidatorTag(%q): %s", step+1, tagName, v))
							return
						}
					}
				}
				res.Nontrivial = tags["validate"] != tags["strict"]
				res.Outcome = "ok"
			})
			if pi != nil {
				return apiPanic("tagseq", pi)
			}
			return res
		},
	}
}

func init() {
	core.Register(&core.Check{
		ID:    "C04",
		Level: "exploration",
		Rule:  "target types generated with reflect.StructOf: a validated field F of 10 kinds (int, uint8, float64, string, time.Duration, []int, map[string]int, *int, *string, *regexp.Regexp) x every applicable validate tag (required, nonzero, positive, min, max, min+max, duration bounds with and without unit) placed in 12 (quick) / 14 (thorough) contexts (top level, nested struct, *struct, slice/array element, map value by value and by pointer, inline struct, struct inside inline struct, inline struct inside a slice element, slice elements under the append and prepend policies, two-level nestings) x configuration for F (location absent, f absent, nil, each menu value, each menu value through ${ref}) x pre-filled default (none, each menu value incl. nil pointers/collections); plus a hand-written catalogue of Validate()/InitDefaults() types (struct and map types providing defaults), plus sequences of two Unpack calls into one struct type selecting the validators with ValidatorTag (two tags x 7x7 validator lists x 4 values x 4 call orders x 2 placements, a type unique to each case). Oracle: success => the independent validator walker accepts the result; predicted violation => error naming the field; non-trivial = a validator is declared and F exists in the result",
		Assumptions: []string{
			"validator semantics from the doc comment on Unpack, applied to the final value after following non-nil pointers; a nil pointer satisfies everything except required",
			"the error must contain the quoted dotted path of F when the offending value came from the configuration, and F's path or an enclosing setting's when it came from a default",
		},
		Spaces: func(tier string) []*core.Space {
			quick := []c04Ctx{ctxTop, ctxNested, ctxPtrStruct, ctxSliceElem, ctxArrayElem, ctxMapVal, ctxMapPtrVal, ctxInline, ctxInlineNested, ctxInlineInSlice, ctxSliceAppend, ctxSlicePrepend}
			if tier == "thorough" {
				return []*core.Space{c04Catalogue(), c04Validating(), c04TagSequences(), c04Space("generated-types", append(quick, ctxNestedInSlice, ctxMapOfSlices))}
			}
			return []*core.Space{c04Catalogue(), c04Validating(), c04TagSequences(), c04Space("generated-types", quick)}
		},
	})
}
