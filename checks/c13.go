package checks

import (
	"fmt"
	"reflect"
	"strings"
	"time"
	"unsafe"

	ucfg "github.com/elastic/go-ucfg"

	"verif/internal/core"
)

// C13: Unpack changes only what the config mentions and nothing when it fails.

type c13Inner struct {
	X int
	Y string
}

type c13T struct {
	A     int
	B     string
	C     []int
	D     map[string]int
	E     *int
	F     c13Inner
	G     *c13Inner
	H     []c13Inner
	I     time.Duration `validate:"min=1s"`
	V     int           `validate:"max=100"`
	Ign   int           `config:",ignore"`
	unexp int
	P     []*c13Inner
}

// the same shape with merge policies given by struct tags
type c13TAppend struct {
	A     int
	B     string
	C     []int `config:"c,append"`
	D     map[string]int
	E     *int
	F     c13Inner
	G     *c13Inner
	H     []c13Inner    `config:"h,append"`
	I     time.Duration `validate:"min=1s"`
	V     int           `validate:"max=100"`
	Ign   int           `config:",ignore"`
	unexp int
	P     []*c13Inner `config:"p,append"`
}

type c13TPrepend struct {
	A     int
	B     string
	C     []int `config:"c,prepend"`
	D     map[string]int
	E     *int
	F     c13Inner
	G     *c13Inner
	H     []c13Inner    `config:"h,prepend"`
	I     time.Duration `validate:"min=1s"`
	V     int           `validate:"max=100"`
	Ign   int           `config:",ignore"`
	unexp int
	P     []*c13Inner `config:"p,prepend"`
}

type c13TReplace struct {
	A     int
	B     string
	C     []int `config:"c,replace"`
	D     map[string]int
	E     *int
	F     c13Inner
	G     *c13Inner
	H     []c13Inner    `config:"h,replace"`
	I     time.Duration `validate:"min=1s"`
	V     int           `validate:"max=100"`
	Ign   int           `config:",ignore"`
	unexp int
	P     []*c13Inner `config:"p,replace"`
}

type c13Setting struct {
	Name  string
	Field string
	Good  interface{}
	Conv  interface{} // conversion failure
	Valid interface{} // validation failure (nil: none)
}

var c13Settings = []c13Setting{
	{"a", "A", 11, "not-a-number", nil},
	{"b", "B", "new", M{"obj": 1}, nil},
	{"c", "C", L{21, 22}, L{21, "x"}, nil},
	{"d", "D", M{"k2": 31, "k3": 32}, M{"k2": "x"}, nil},
	{"e", "E", 41, "x", nil},
	{"f.x", "F", 51, "x", nil},
	{"g.y", "G", "gy", M{"o": 1}, nil},
	{"h", "H", L{M{"x": 61}}, L{M{"x": "bad"}}, nil},
	{"i", "I", "5s", "5 parsecs", "10ms"},
	{"v", "V", 71, "x", 500},
	{"p", "P", L{M{"x": 81}}, L{M{"x": "bad"}}, nil},
}

func c13Prefill(kind int, target reflect.Value) {
	switch kind {
	case 0: // zero (except the validated duration, whose zero value would not validate)
		target.FieldByName("I").Set(reflect.ValueOf(2 * time.Second))
	case 1, 2:
		e := 5
		set := func(name string, v interface{}) { target.FieldByName(name).Set(reflect.ValueOf(v)) }
		set("A", 1)
		set("B", "old")
		set("C", []int{7, 8, 9})
		set("D", map[string]int{"k1": 1, "k2": 2})
		set("E", &e)
		set("F", c13Inner{5, "fy"})
		set("G", &c13Inner{6, "oldgy"})
		set("H", []c13Inner{{1, "h0"}, {2, "h1"}})
		set("I", 2*time.Second)
		set("V", 9)
		set("Ign", 77)
		set("P", []*c13Inner{{3, "p0"}})
		// unexported field
		f := target.FieldByName("unexp")
		*(*int)(unsafe.Pointer(f.UnsafeAddr())) = 88
		if kind == 2 {
			// shorter collections than the config's
			set("C", []int{7})
			set("H", []c13Inner{})
			set("D", map[string]int{})
			set("G", (*c13Inner)(nil))
			set("E", (*int)(nil))
			set("P", []*c13Inner(nil))
		}
	}
}

type c13Policy int

func (p c13Policy) String() string { return [...]string{"default", "append", "prepend", "replace"}[p] }

func c13NewTarget(p c13Policy) reflect.Value {
	switch p {
	case 1:
		return reflect.ValueOf(&c13TAppend{})
	case 2:
		return reflect.ValueOf(&c13TPrepend{})
	case 3:
		return reflect.ValueOf(&c13TReplace{})
	}
	return reflect.ValueOf(&c13T{})
}

// snapshot for the failure clause: shallow identity per field.
func c13Shallow(v reflect.Value) string {
	var sb strings.Builder
	var walk func(v reflect.Value)
	walk = func(v reflect.Value) {
		switch v.Kind() {
		case reflect.Struct:
			sb.WriteString("{")
			for i := 0; i < v.NumField(); i++ {
				sb.WriteString(v.Type().Field(i).Name + ":")
				walk(v.Field(i))
				sb.WriteString(" ")
			}
			sb.WriteString("}")
		case reflect.Slice:
			// same header and same elements (elements that are pointers: identity)
			fmt.Fprintf(&sb, "slice@%x len=%d cap=%d[", v.Pointer(), v.Len(), v.Cap())
			for i := 0; i < v.Len(); i++ {
				walk(v.Index(i))
				sb.WriteString(",")
			}
			sb.WriteString("]")
		case reflect.Map:
			fmt.Fprintf(&sb, "map@%x", v.Pointer()) // contents are exempt
		case reflect.Ptr:
			fmt.Fprintf(&sb, "ptr@%x", v.Pointer()) // pointee is exempt
		case reflect.Int, reflect.Int64:
			fmt.Fprintf(&sb, "%d", v.Int())
		case reflect.String:
			fmt.Fprintf(&sb, "%q", v.String())
		default:
			fmt.Fprintf(&sb, "?%v", v.Kind())
		}
	}
	walk(v)
	return sb.String()
}

// deep value text for the success clause
func c13Deep(v reflect.Value) string {
	var sb strings.Builder
	var walk func(v reflect.Value)
	walk = func(v reflect.Value) {
		switch v.Kind() {
		case reflect.Struct:
			sb.WriteString("{")
			for i := 0; i < v.NumField(); i++ {
				sb.WriteString(v.Type().Field(i).Name + ":")
				walk(v.Field(i))
				sb.WriteString(" ")
			}
			sb.WriteString("}")
		case reflect.Slice:
			if v.Len() == 0 {
				sb.WriteString("[]")
				return
			}
			sb.WriteString("[")
			for i := 0; i < v.Len(); i++ {
				walk(v.Index(i))
				sb.WriteString(",")
			}
			sb.WriteString("]")
		case reflect.Map:
			m := map[string]int{}
			for _, k := range v.MapKeys() {
				m[k.String()] = int(v.MapIndex(k).Int())
			}
			fmt.Fprintf(&sb, "%v", m)
		case reflect.Ptr:
			if v.IsNil() {
				sb.WriteString("nil")
				return
			}
			sb.WriteString("&")
			walk(v.Elem())
		case reflect.Int, reflect.Int64:
			fmt.Fprintf(&sb, "%d", v.Int())
		case reflect.String:
			fmt.Fprintf(&sb, "%q", v.String())
		}
	}
	walk(v)
	return sb.String()
}

// c13Expect applies the mentioned settings to a deep copy of the pre-filled value.
// skip lists fields whose expectation is left open.
func c13Expect(pre reflect.Value, mentioned []c13Setting, pol c13Policy) (map[string]string, map[string]bool) {
	skip := map[string]bool{}
	exp := map[string]string{}
	ints := func(l L) []int {
		var o []int
		for _, x := range l {
			o = append(o, x.(int))
		}
		return o
	}
	mergeInts := func(old, nw []int) []int {
		switch pol {
		case 1:
			return append(append([]int{}, old...), nw...)
		case 2:
			return append(append([]int{}, nw...), old...)
		case 3:
			return nw
		}
		out := append([]int{}, old...)
		for i, x := range nw {
			if i < len(out) {
				out[i] = x
			} else {
				out = append(out, x)
			}
		}
		return out
	}
	for i := 0; i < pre.NumField(); i++ {
		name := pre.Type().Field(i).Name
		exp[name] = c13Deep(pre.Field(i))
	}
	for _, s := range mentioned {
		f := pre.FieldByName(s.Field)
		switch s.Field {
		case "A", "V":
			exp[s.Field] = fmt.Sprint(s.Good)
		case "B":
			exp[s.Field] = fmt.Sprintf("%q", s.Good)
		case "I":
			exp[s.Field] = fmt.Sprint(int64(5 * time.Second))
		case "C":
			exp["C"] = c13Deep(reflect.ValueOf(mergeInts(f.Interface().([]int), ints(s.Good.(L)))))
		case "D":
			m := map[string]int{}
			for _, k := range f.MapKeys() {
				m[k.String()] = int(f.MapIndex(k).Int())
			}
			for k, v := range s.Good.(M) {
				m[k] = v.(int)
			}
			exp["D"] = fmt.Sprintf("%v", m)
		case "E":
			exp["E"] = fmt.Sprintf("&%d", s.Good)
		case "F":
			in := f.Interface().(c13Inner)
			in.X = s.Good.(int)
			exp["F"] = c13Deep(reflect.ValueOf(in))
		case "G":
			in := c13Inner{}
			if !f.IsNil() {
				in = *f.Interface().(*c13Inner)
			}
			in.Y = s.Good.(string)
			exp["G"] = "&" + c13Deep(reflect.ValueOf(in))
		case "H", "P":
			var old []c13Inner
			if s.Field == "H" {
				old = f.Interface().([]c13Inner)
			} else {
				for _, p := range f.Interface().([]*c13Inner) {
					old = append(old, *p)
				}
			}
			x := s.Good.(L)[0].(M)["x"].(int)
			var out []c13Inner
			switch pol {
			case 1:
				out = append(append([]c13Inner{}, old...), c13Inner{X: x})
			case 2:
				out = append([]c13Inner{{X: x}}, old...)
			case 3:
				// whether fields of a replaced element survive is left open
				skip[s.Field] = true
			default:
				out = append([]c13Inner{}, old...)
				if len(out) == 0 {
					out = []c13Inner{{}}
				}
				out[0].X = x
			}
			if s.Field == "H" {
				exp["H"] = c13Deep(reflect.ValueOf(out))
			} else {
				var ps []*c13Inner
				for i := range out {
					ps = append(ps, &out[i])
				}
				exp["P"] = c13Deep(reflect.ValueOf(ps))
			}
		}
	}
	return exp, skip
}

func c13Space() *core.Space {
	nS := len(c13Settings)
	nSub := 1 << nS
	// fault: 0 none; otherwise 1+2*pos+kind (kind 0 conversion, 1 validation)
	radices := []int{nSub, 3, 4, 1 + 2*nS}
	return &core.Space{
		Name: "subsets-x-faults",
		Size: product(radices...),
		Text: func(i int) string {
			d := mixedRadix(i, radices...)
			var names []string
			for k, s := range c13Settings {
				if d[0]&(1<<k) != 0 {
					names = append(names, s.Name)
				}
			}
			fault := "no fault"
			if d[3] > 0 {
				pos, kind := (d[3]-1)/2, (d[3]-1)%2
				fault = fmt.Sprintf("%s fault at %q", [...]string{"conversion", "validation"}[kind], c13Settings[pos].Name)
			}
			return fmt.Sprintf("config mentions %v; pre-filled=%s; slice policy=%v; %s", names, [...]string{"zero", "all fields set", "short/nil collections"}[d[1]], c13Policy(d[2]), fault)
		},
		Exec: func(i int) core.Result {
			d := mixedRadix(i, radices...)
			sub, pre, pol := d[0], d[1], c13Policy(d[2])
			faultPos, faultKind := -1, 0
			if d[3] > 0 {
				faultPos, faultKind = (d[3]-1)/2, (d[3]-1)%2
				if sub&(1<<faultPos) == 0 {
					return core.Result{Skipped: true} // the faulted setting must be part of the config
				}
				if faultKind == 1 && c13Settings[faultPos].Valid == nil {
					return core.Result{Skipped: true}
				}
			}
			var res core.Result
			pi := core.Guard(func() {
				flat := map[string]interface{}{}
				var mentioned []c13Setting
				for k, s := range c13Settings {
					if sub&(1<<k) == 0 {
						continue
					}
					v := s.Good
					if k == faultPos {
						if faultKind == 0 {
							v = s.Conv
						} else {
							v = s.Valid
						}
					}
					flat[s.Name] = v
					mentioned = append(mentioned, s)
				}
				cfg, err := ucfg.NewFrom(nest(flat))
				if err != nil {
					res = core.Fail("c13", "BUILD", err.Error())
					return
				}
				target := c13NewTarget(pol)
				c13Prefill(pre, target.Elem())
				// the same pre-filled value, untouched, for the model
				ref := c13NewTarget(pol)
				c13Prefill(pre, ref.Elem())
				before := c13Shallow(target.Elem())
				uerr := cfg.Unpack(target.Interface())
				if faultPos >= 0 {
					if uerr == nil {
						res = core.Fail("failure", "FAULT-ACCEPTED", fmt.Sprintf("fault at %q did not make Unpack fail", c13Settings[faultPos].Name))
						return
					}
					if after := c13Shallow(target.Elem()); after != before {
						res = core.Fail("failure", "TARGET-MODIFIED-ON-FAILURE "+failClass(before, after), fmt.Sprintf("Unpack failed (%s) but the struct changed: before %s after %s", firstLine(uerr.Error()), before, after))
						return
					}
					res.Outcome = "failed-untouched"
					res.Nontrivial = len(mentioned) > 1
					return
				}
				if uerr != nil {
					res = core.Fail("success", "VALID-CONFIG-REJECTED", firstLine(uerr.Error()))
					return
				}
				exp, skip := c13Expect(ref.Elem(), mentioned, pol)
				got := target.Elem()
				for fi := 0; fi < got.NumField(); fi++ {
					name := got.Type().Field(fi).Name
					if skip[name] {
						continue
					}
					if g := c13Deep(got.Field(fi)); g != exp[name] {
						ment := false
						for _, s := range mentioned {
							if s.Field == name {
								ment = true
							}
						}
						class := "UNMENTIONED-FIELD-CHANGED"
						if ment {
							class = "MENTIONED-FIELD-WRONG"
						}
						res = core.Fail("success", fmt.Sprintf("%s %s policy=%v", class, name, pol), fmt.Sprintf("field %s: expected %s, got %s", name, exp[name], g))
						return
					}
				}
				res.Outcome = "ok"
				res.Nontrivial = len(mentioned) > 0 && len(mentioned) < len(c13Settings)
			})
			if pi != nil {
				return apiPanic("c13", pi)
			}
			return res
		},
	}
}

func failClass(before, after string) string {
	// name of the first field that differs
	i := 0
	for i < len(before) && i < len(after) && before[i] == after[i] {
		i++
	}
	j := strings.LastIndex(before[:i], " ")
	k := strings.Index(before[j+1:], ":")
	if j >= 0 && k > 0 {
		return "field " + before[j+1:j+1+k]
	}
	return ""
}

// InitDefaults and the struct's own Validate
type c13D struct {
	A int
	B string
	C []int
}

func (d *c13D) InitDefaults() {
	if d.B == "" {
		d.B = "dflt"
	}
	d.C = append(d.C, 1)
}

type c13V struct {
	A, B int
	L    []int
	m    map[string]int
}

func (v *c13V) Validate() error {
	if v.A+v.B > 10 {
		return fmt.Errorf("A+B too large")
	}
	return nil
}

// targets that unpack themselves: on failure (of their own Unpack, or of Validate afterwards) the
// struct the caller passed keeps its previous field values
type c13SelfU struct{ Min, Max int }

func (u *c13SelfU) Unpack(c *ucfg.Config) error {
	if v, err := c.Int("min", -1); err == nil {
		u.Min = int(v)
	}
	if v, err := c.Int("max", -1); err == nil {
		u.Max = int(v)
	}
	if u.Min > u.Max {
		return fmt.Errorf("min > max")
	}
	return nil
}

type c13SelfV struct {
	Name  string
	Level int
}

func (u *c13SelfV) Unpack(c *ucfg.Config) error {
	if v, err := c.String("name", -1); err == nil {
		u.Name = v
	}
	if v, err := c.Int("level", -1); err == nil {
		u.Level = int(v)
	}
	return nil
}

func (u *c13SelfV) Validate() error {
	if u.Level > 10 {
		return fmt.Errorf("level too high")
	}
	return nil
}

// c13TagSeq: one struct type read under two struct tag names. Under `config` the settings are
// a, b (c ignored); under `alt` they are x, y (a ignored).
type c13Alt1 struct {
	A int    `config:"a" alt:",ignore"`
	B string `config:"b" alt:"y"`
	C int    `config:",ignore" alt:"x"`
}
type c13Alt2 struct {
	A int    `config:"a" alt:",ignore"`
	B string `config:"b" alt:"y"`
	C int    `config:",ignore" alt:"x"`
}

func c13Extra() *core.Space {
	type tcase struct {
		Name string
		Run  func() string // "" = ok
	}
	tagSeq := func(first string, mk func() (interface{}, func() string)) string {
		cfg := mustCfg(M{"a": 1, "b": "fromb", "x": 7, "y": "fromy"})
		order := []string{first, map[string]string{"alt": "config", "config": "alt"}[first], first}
		for step, tag := range order {
			t, show := mk()
			var opts []ucfg.Option
			if tag == "alt" {
				opts = append(opts, ucfg.StructTag("alt"))
			}
			if err := cfg.Unpack(t, opts...); err != nil {
				return err.Error()
			}
			want := map[string]string{"config": "{A:1 B:fromb C:55}", "alt": "{A:44 B:fromy C:7}"}[tag]
			if got := show(); got != want {
				return fmt.Sprintf("call %d with struct tag %q: got %s, want %s (pre-filled A:44 B:old C:55)", step+1, tag, got, want)
			}
		}
		return ""
	}
	cases := []tcase{
		{"nil pointer to a struct as target (Unpack(&p)): stays nil when Unpack fails, is allocated when it succeeds", func() string {
			var p *c13Inner
			if err := mustCfg(M{"x": "not-a-number"}).Unpack(&p); err == nil {
				return "expected failure"
			}
			if p != nil {
				return fmt.Sprintf("the nil pointer was replaced on failure: %+v", *p)
			}
			if err := mustCfg(M{"x": 4}).Unpack(&p); err != nil {
				return err.Error()
			}
			if p == nil || p.X != 4 {
				return fmt.Sprintf("%v", p)
			}
			return ""
		}},
		{"top-level target whose own Unpack fails after writing fields: unchanged", func() string {
			t := &c13SelfU{Min: 5, Max: 10}
			if err := mustCfg(M{"min": 50}).Unpack(t); err == nil {
				return "expected failure"
			}
			if *t != (c13SelfU{5, 10}) {
				return fmt.Sprintf("struct changed on failure: %+v", *t)
			}
			return ""
		}},
		{"top-level target whose own Unpack succeeds: fields updated, pre-filled ones visible to it", func() string {
			t := &c13SelfU{Min: 5, Max: 10}
			if err := mustCfg(M{"min": 7}).Unpack(t); err != nil {
				return err.Error()
			}
			if *t != (c13SelfU{7, 10}) {
				return fmt.Sprintf("%+v", *t)
			}
			return ""
		}},
		{"pre-filled self-unpacking values in a field, behind a pointer, in a list and in a map: what their Unpack does not assign stays", func() string {
			t := &struct {
				U c13SelfU
				P *c13SelfU
				L []c13SelfU
				M map[string]c13SelfU
				Q []*c13SelfU
			}{U: c13SelfU{5, 10}, P: &c13SelfU{5, 10}, L: []c13SelfU{{5, 10}}, M: map[string]c13SelfU{"k": {5, 10}}, Q: []*c13SelfU{{5, 10}}}
			set := M{"min": 7}
			if err := mustCfg(M{"u": set, "p": set, "l": L{set}, "m": M{"k": set}, "q": L{set}}).Unpack(t); err != nil {
				return err.Error()
			}
			want := c13SelfU{7, 10}
			if t.U != want || *t.P != want || len(t.L) != 1 || t.L[0] != want || t.M["k"] != want || len(t.Q) != 1 || *t.Q[0] != want {
				return fmt.Sprintf("U=%+v P=%+v L=%+v M=%+v Q[0]=%+v, want {Min:7 Max:10} everywhere", t.U, *t.P, t.L, t.M, *t.Q[0])
			}
			return ""
		}},
		{"top-level self-unpacking target whose Validate fails afterwards: unchanged", func() string {
			t := &c13SelfV{"old", 3}
			if err := mustCfg(M{"name": "new", "level": 12}).Unpack(t); err == nil {
				return "expected failure"
			}
			if *t != (c13SelfV{"old", 3}) {
				return fmt.Sprintf("struct changed on failure: %+v", *t)
			}
			return ""
		}},
		{"self-unpacking struct as a field: failure leaves the outer struct unchanged", func() string {
			t := &struct {
				A int
				U c13SelfU
			}{A: 1, U: c13SelfU{5, 10}}
			if err := mustCfg(M{"a": 2, "u": M{"min": 50}}).Unpack(t); err == nil {
				return "expected failure"
			}
			if t.A != 1 || t.U != (c13SelfU{5, 10}) {
				return fmt.Sprintf("struct changed on failure: %+v", *t)
			}
			return ""
		}},
		{"the StructTag option selects names and ignore flags anew on every call (alt, config, alt)", func() string {
			return tagSeq("alt", func() (interface{}, func() string) {
				t := &c13Alt1{A: 44, B: "old", C: 55}
				return t, func() string { return fmt.Sprintf("%+v", *t) }
			})
		}},
		{"the StructTag option selects names and ignore flags anew on every call (config, alt, config)", func() string {
			return tagSeq("config", func() (interface{}, func() string) {
				t := &c13Alt2{A: 44, B: "old", C: 55}
				return t, func() string { return fmt.Sprintf("%+v", *t) }
			})
		}},
		{"InitDefaults sets unmentioned fields, config overrides mentioned ones", func() string {
			t := &c13D{A: 1}
			if err := mustCfg(M{"a": 2}).Unpack(t); err != nil {
				return err.Error()
			}
			if t.A != 2 || t.B != "dflt" || len(t.C) != 1 {
				return fmt.Sprintf("%+v", *t)
			}
			return ""
		}},
		{"InitDefaults result is not committed when Unpack fails", func() string {
			t := &c13D{A: 1}
			if err := mustCfg(M{"a": "x"}).Unpack(t); err == nil {
				return "expected failure"
			}
			if t.A != 1 || t.B != "" || t.C != nil {
				return fmt.Sprintf("struct changed on failure: %+v", *t)
			}
			return ""
		}},
		{"struct's own Validate rejects the merged result: target untouched", func() string {
			t := &c13V{A: 1, B: 2, L: []int{1}, m: map[string]int{"k": 1}}
			before := c13Shallow(reflect.ValueOf(t).Elem())
			if err := mustCfg(M{"a": 6, "b": 7, "l": L{9, 9}}).Unpack(t); err == nil {
				return "expected failure"
			}
			if after := c13Shallow(reflect.ValueOf(t).Elem()); after != before {
				return "struct changed on failure: before " + before + " after " + after
			}
			return ""
		}},
		{"struct's own Validate accepts: fields updated", func() string {
			t := &c13V{A: 1, B: 2}
			if err := mustCfg(M{"a": 3}).Unpack(t); err != nil {
				return err.Error()
			}
			if t.A != 3 || t.B != 2 {
				return fmt.Sprintf("%+v", *t)
			}
			return ""
		}},
		{"nested failure inside a slice of structs leaves the outer struct untouched", func() string {
			t := &c13T{H: []c13Inner{{1, "a"}, {2, "b"}}, A: 5}
			before := c13Shallow(reflect.ValueOf(t).Elem())
			if err := mustCfg(M{"a": 6, "h": L{M{"x": 9}, M{"x": "bad"}}}).Unpack(t); err == nil {
				return "expected failure"
			}
			if after := c13Shallow(reflect.ValueOf(t).Elem()); after != before {
				return "struct changed on failure: before " + before + " after " + after
			}
			return ""
		}},
		{"failure in a later element of a primitive slice leaves the slice untouched", func() string {
			t := &c13T{C: []int{1, 2, 3}}
			before := c13Shallow(reflect.ValueOf(t).Elem())
			if err := mustCfg(M{"c": L{7, 8, "bad"}}).Unpack(t); err == nil {
				return "expected failure"
			}
			if after := c13Shallow(reflect.ValueOf(t).Elem()); after != before {
				return "struct changed on failure: before " + before + " after " + after
			}
			return ""
		}},
	}
	return &core.Space{
		Name: "initdefaults-and-own-validate",
		Size: len(cases),
		Text: func(i int) string { return cases[i].Name },
		Exec: func(i int) core.Result {
			var res core.Result
			pi := core.Guard(func() {
				if msg := cases[i].Run(); msg != "" {
					res = core.Fail("extra", "EXTRA "+cases[i].Name, msg)
					return
				}
				res.Nontrivial = true
			})
			if pi != nil {
				return apiPanic("extra", pi)
			}
			return res
		},
	}
}

func init() {
	core.Register(&core.Check{
		ID:    "C13",
		Level: "exploration",
		Rule:  "a struct with 11 settings of all shapes (int, string, []int, map, *int, nested struct, *struct, []struct, []*struct, validated duration and int) plus an ignored and an unexported field: every subset of the settings (2048) x 3 pre-filled values (zero, all set, short/nil collections) x 4 slice policies given by struct tags x {no fault, a conversion fault or a validation fault at every position of the subset}. Success: every mentioned field equals the model merge of old and new value per policy, every other field - ignored and unexported included - is unchanged. Failure: every field is shallowly identical to the snapshot taken before the call (values, slice headers and elements, map and pointer identity); plus InitDefaults / own-Validate scenarios; plus 26 collection shapes two levels deep (arrays of structs, slices, maps and pointers; maps of slices, arrays, structs, pointers and maps; slices of maps, slices, arrays and pointers; pointers to collections; interface{} holding a map, struct, pointer, slice or array) pre-filled and unpacked over under the default, append and prepend policy, compared with a generic merge model; non-trivial = subset neither empty nor full (success) / at least two settings (failure); plus InitDefaults x 12 configs (empty ones included) x 3 pre-fills under the failure clause",
		Assumptions: []string{
			"contents behind maps and pointers the struct shares are exempt from the failure clause, as the statement says",
			"whether fields of an element survive a replace of a []struct is left open (not compared); maps always merge (doc comment of Unpack)",
		},
		Spaces: func(tier string) []*core.Space { return []*core.Space{c13Extra(), c13InitDefaultsFailures(), c13Collections(), c13Space()} },
	})
}
