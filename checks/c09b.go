package checks

import (
	"fmt"
	"sort"

	ucfg "github.com/elastic/go-ucfg"

	"verif/internal/core"
	"verif/internal/tree"
)

// C09, interface-keyed maps (what the YAML decoder delivers): every map of up to three keys
// from strings and non-strings, at the top level and nested, through NewFrom and through
// Merge. A key that is no string is rejected - whichever key is enumerated first.
func c09IfaceKeys() *core.Space {
	keys := []interface{}{"a", "b", 7, true, 2.5}
	var sets [][]interface{}
	n := len(keys)
	for mask := 1; mask < 1<<n; mask++ {
		var s []interface{}
		for i := 0; i < n; i++ {
			if mask&(1<<i) != 0 {
				s = append(s, keys[i])
			}
		}
		if len(s) <= 3 {
			sets = append(sets, s)
		}
	}
	places := []string{"NewFrom(m)", "NewFrom({n: m})", "NewFrom({l: [m]})", "New().Merge(m)", "{a: 1}.Merge({n: m})"}
	radices := []int{len(sets), len(places)}
	mk := func(s []interface{}) map[interface{}]interface{} {
		m := map[interface{}]interface{}{}
		for i, k := range s {
			m[k] = fmt.Sprintf("v%d", i)
		}
		return m
	}
	text := func(s []interface{}) string {
		var parts []string
		for i, k := range s {
			parts = append(parts, fmt.Sprintf("%#v: v%d", k, i))
		}
		sort.Strings(parts)
		return fmt.Sprintf("map[interface{}]interface{}{%v}", parts)
	}
	return &core.Space{
		Name: "interface-keyed-maps",
		Size: product(radices...),
		Text: func(i int) string {
			d := mixedRadix(i, radices...)
			return fmt.Sprintf("%s with m = %s", places[d[1]], text(sets[d[0]]))
		},
		Exec: func(i int) core.Result {
			d := mixedRadix(i, radices...)
			sc := c09Scenario{Run: func() string {
				m := mk(sets[d[0]])
				var c *ucfg.Config
				var err error
				switch d[1] {
				case 0:
					c, err = ucfg.NewFrom(m)
				case 1:
					c, err = ucfg.NewFrom(map[interface{}]interface{}{"n": m})
				case 2:
					c, err = ucfg.NewFrom(M{"l": L{m}})
				case 3:
					c = ucfg.New()
					err = c.Merge(m)
				case 4:
					c = mustCfg(M{"a": 1})
					err = c.Merge(M{"n": m})
				}
				if err != nil {
					return "newfrom:" + errClass(err)
				}
				return observeConfig(c)
			}}
			return c09Explore(sc, 2, 3000)
		},
	}
}

// C09, merging over a reference to a setting that the same Merge changes as well: the result
// may not depend on which of the two the merge happens to meet first.
func c09MergeOverRefs() *core.Space {
	tos := []M{
		{"a": "${x}", "x": M{"p": 1}},
		{"a": "${x}", "x": L{1}},
		{"x": "${a}", "a": M{"p": 1}},
		{"a": "${x}", "x": M{"p": 1}, "b": "${x}"},
		{"a": M{"n": "${x}"}, "x": M{"p": 1}},
	}
	froms := []M{
		{"a": M{"q": 2}, "x": M{"r": 3}},
		{"a": L{2}, "x": L{3}},
		{"a": M{"q": 2}, "x": "lit"},
		{"x": M{"r": 3}, "a": "lit"},
		{"a": M{"q": 2}, "b": M{"s": 4}, "x": M{"r": 3}},
		{"a": M{"n": M{"q": 2}}, "x": M{"r": 3}},
	}
	pols := []tree.Policy{tree.Default, tree.Append, tree.Replace}
	radices := []int{len(tos), len(froms), len(pols)}
	return &core.Space{
		Name: "merge-over-references-to-merged-settings",
		Size: product(radices...),
		Text: func(i int) string {
			d := mixedRadix(i, radices...)
			return fmt.Sprintf("NewFrom(%s, VarExp).Merge(%s, %s) then Unpack/FlattenedKeys", sortedMapText(tos[d[0]]), sortedMapText(froms[d[1]]), pols[d[2]])
		},
		Exec: func(i int) core.Result {
			d := mixedRadix(i, radices...)
			sc := c09Scenario{Run: func() string {
				opts := append([]ucfg.Option{ucfg.PathSep("."), ucfg.VarExp}, policyOpt[pols[d[2]]]...)
				to, err := ucfg.NewFrom(tos[d[0]], opts...)
				if err != nil {
					return "newfrom:" + errClass(err)
				}
				if err := to.Merge(froms[d[1]], opts...); err != nil {
					return "merge:" + errClass(err) + " " + observeConfig(to, opts...)
				}
				return observeConfig(to, opts...)
			}}
			return c09Explore(sc, 2, 3000)
		},
	}
}

// C09, interface-keyed maps whose keys overlap after dotted-path expansion (the alphabet of
// newfrom-overlapping-keys, one and two entries), at the top level and nested below a string-keyed map.
func c09IfaceOverlap() *core.Space {
	keys := []string{"a", "b", "a.b", "a.c", "a.b.c", "a.0", "0"}
	vals := []interface{}{"leaf", nil, M{"b": "vb"}, M{"c": "vc"}, M{"b": M{"c": "vbc"}}, L{"el"}, M{"b": nil, "d": "vd"}, map[interface{}]interface{}{"b": "vb", "b.c": nil}}
	type entry struct {
		k string
		v int
	}
	var maps [][]entry
	nk, nv := len(keys), len(vals)
	for i := 0; i < nk; i++ {
		for vi := 0; vi < nv; vi++ {
			maps = append(maps, []entry{{keys[i], vi}})
		}
	}
	for i := 0; i < nk; i++ {
		for j := i + 1; j < nk; j++ {
			for vi := 0; vi < nv; vi++ {
				for vj := 0; vj < nv; vj++ {
					maps = append(maps, []entry{{keys[i], vi}, {keys[j], vj}})
				}
			}
		}
	}
	mk := func(es []entry) map[interface{}]interface{} {
		m := map[interface{}]interface{}{}
		for _, e := range es {
			m[e.k] = vals[e.v]
		}
		return m
	}
	places := []string{"NewFrom(m)", "NewFrom({n: m})", "{a: 1}.Merge({n: m})"}
	radices := []int{len(maps), len(places)}
	return &core.Space{
		Name: "interface-keyed-overlapping-keys",
		Size: product(radices...),
		Text: func(i int) string {
			d := mixedRadix(i, radices...)
			var parts []string
			for _, e := range maps[d[0]] {
				parts = append(parts, fmt.Sprintf("%q: %v", e.k, vals[e.v]))
			}
			return fmt.Sprintf("%s, PathSep(\".\") with m = map[interface{}]interface{}{%v}", places[d[1]], parts)
		},
		Exec: func(i int) core.Result {
			d := mixedRadix(i, radices...)
			sc := c09Scenario{Run: func() string {
				m := mk(maps[d[0]])
				var c *ucfg.Config
				var err error
				switch d[1] {
				case 0:
					c, err = ucfg.NewFrom(m, ucfg.PathSep("."))
				case 1:
					c, err = ucfg.NewFrom(M{"n": m}, ucfg.PathSep("."))
				case 2:
					c = mustCfg(M{"a": 1})
					err = c.Merge(M{"n": m}, ucfg.PathSep("."))
				}
				if err != nil {
					return "newfrom:" + errClass(err)
				}
				return observeConfig(c, ucfg.PathSep("."))
			}}
			return c09Explore(sc, 2, 3000)
		},
	}
}
