package checks

import (
	"fmt"
	"sort"

	ucfg "github.com/elastic/go-ucfg"

	"verif/internal/core"
)

// C09, interface-keyed maps (what the YAML decoder delivers): every map of up to three keys
// from strings and non-strings, at the top level and nested, through NewFrom and through
// Merge. A key that is no string is rejected - whichever key is enumerated first.
func c09IfaceKeys() *core.Space {
	keys := []interface{}{"a", "b", 7, true, 2.5}
	var sets [][]interface{}
	n := len(keys)
	for mask := 1; mask < 1<<n; mask++ {
		var s []interface{}
		for i := 0; i < n; i++ {
			if mask&(1<<i) != 0 {
				s = append(s, keys[i])
			}
		}
		if len(s) <= 3 {
			sets = append(sets, s)
		}
	}
	places := []string{"NewFrom(m)", "NewFrom({n: m})", "NewFrom({l: [m]})", "New().Merge(m)", "{a: 1}.Merge({n: m})"}
	radices := []int{len(sets), len(places)}
	mk := func(s []interface{}) map[interface{}]interface{} {
		m := map[interface{}]interface{}{}
		for i, k := range s {
			m[k] = fmt.Sprintf("v%d", i)
		}
		return m
	}
	text := func(s []interface{}) string {
		var parts []string
		for i, k := range s {
			parts = append(parts, fmt.Sprintf("%#v: v%d", k, i))
		}
		sort.Strings(parts)
		return fmt.Sprintf("map[interface{}]interface{}{%v}", parts)
	}
	return &core.Space{
		Name: "interface-keyed-maps",
		Size: product(radices...),
		Text: func(i int) string {
			d := mixedRadix(i, radices...)
			return fmt.Sprintf("%s with m = %s", places[d[1]], text(sets[d[0]]))
		},
		Exec: func(i int) core.Result {
			d := mixedRadix(i, radices...)
			sc := c09Scenario{Run: func() string {
				m := mk(sets[d[0]])
				var c *ucfg.Config
				var err error
				switch d[1] {
				case 0:
					c, err = ucfg.NewFrom(m)
				case 1:
					c, err = ucfg.NewFrom(map[interface{}]interface{}{"n": m})
				case 2:
					c, err = ucfg.NewFrom(M{"l": L{m}})
				case 3:
					c = ucfg.New()
					err = c.Merge(m)
				case 4:
					c = mustCfg(M{"a": 1})
					err = c.Merge(M{"n": m})
				}
				if err != nil {
					return "newfrom:" + errClass(err)
				}
				return observeConfig(c)
			}}
			return c09Explore(sc, 2, 3000)
		},
	}
}
