package checks

import (
	"fmt"

	ucfg "github.com/elastic/go-ucfg"

	"verif/internal/core"
)

// C08, chains of references that run into a cycle further down: the setting that is read is not part of the
// cycle, nor is the setting it refers to directly. Every read returns, and reading the head reports an error
// (a cyclic reference met on the way cannot be absorbed: no defaults, no resolvers).
func c08ChainsIntoCycles() *core.Space {
	type kase struct {
		cfg  M
		text string
	}
	var cases []kase
	for tail := 1; tail <= 3; tail++ {
		for cyc := 1; cyc <= 3; cyc++ {
			for _, form := range []string{"${%s}", "x${%s}", "${%s}y${%s}"} {
				m := M{}
				names := []string{"a", "t1", "t2"}[:tail]
				for c := 0; c < cyc; c++ {
					names = append(names, fmt.Sprintf("c%d", c))
				}
				for n := 0; n < len(names); n++ {
					next := n + 1
					if next == len(names) {
						next = tail
					}
					f := "${%s}"
					if n == tail-1 {
						f = form
					}
					if f == "${%s}y${%s}" {
						m[names[n]] = fmt.Sprintf(f, names[next], names[next])
					} else {
						m[names[n]] = fmt.Sprintf(f, names[next])
					}
				}
				cases = append(cases, kase{m, sortedMapText(m)})
			}
		}
	}
	reads := []struct {
		Name string
		Do   func(c *ucfg.Config, opts []ucfg.Option) error
	}{
		{"String(a)", func(c *ucfg.Config, o []ucfg.Option) error { _, err := c.String("a", -1, o...); return err }},
		{"Unpack into struct{A string}", func(c *ucfg.Config, o []ucfg.Option) error { var t struct{ A string }; return c.Unpack(&t, o...) }},
		{"Unpack into struct{A []string}", func(c *ucfg.Config, o []ucfg.Option) error { var t struct{ A []string }; return c.Unpack(&t, o...) }},
		{"Unpack into struct{A *[]string}", func(c *ucfg.Config, o []ucfg.Option) error { var t struct{ A *[]string }; return c.Unpack(&t, o...) }},
		{"Unpack into struct{A [1]string}", func(c *ucfg.Config, o []ucfg.Option) error { var t struct{ A [1]string }; return c.Unpack(&t, o...) }},
		{"Unpack into struct{A map[string]string}", func(c *ucfg.Config, o []ucfg.Option) error {
			var t struct{ A map[string]string }
			return c.Unpack(&t, o...)
		}},
		{"Unpack into struct{A interface{}}", func(c *ucfg.Config, o []ucfg.Option) error { var t struct{ A interface{} }; return c.Unpack(&t, o...) }},
		{"Unpack into map[string]interface{}", func(c *ucfg.Config, o []ucfg.Option) error { var t map[string]interface{}; return c.Unpack(&t, o...) }},
		{"Unpack into map[string][]string", func(c *ucfg.Config, o []ucfg.Option) error { var t map[string][]string; return c.Unpack(&t, o...) }},
		{"Child(a)", func(c *ucfg.Config, o []ucfg.Option) error { _, err := c.Child("a", -1, o...); return err }},
	}
	radices := []int{len(cases), len(reads)}
	return &core.Space{
		Name: "chains-into-cycles",
		Size: product(radices...),
		Text: func(i int) string {
			d := mixedRadix(i, radices...)
			return fmt.Sprintf("%s: %s, then FlattenedKeys", cases[d[0]].text, reads[d[1]].Name)
		},
		Exec: func(i int) core.Result {
			d := mixedRadix(i, radices...)
			var res core.Result
			pi := core.Guard(func() {
				opts := []ucfg.Option{ucfg.PathSep("."), ucfg.VarExp}
				c, err := ucfg.NewFrom(cases[d[0]].cfg, opts...)
				if err != nil {
					res = core.Fail("chains", "BUILD", err.Error())
					return
				}
				err = reads[d[1]].Do(c, opts)
				c.FlattenedKeys(opts...)
				if err == nil {
					res = core.Fail("chains", "CYCLE-NOT-REPORTED "+reads[d[1]].Name, "the chain below 'a' ends in a cycle, the read succeeded")
					return
				}
				if _, ok := err.(ucfg.Error); !ok {
					res = core.Fail("chains", "NOT-A-UCFG-ERROR "+reads[d[1]].Name, err.Error())
					return
				}
				res = core.Result{Nontrivial: true, Outcome: "error"}
			})
			if pi != nil {
				return apiPanic("chains", pi)
			}
			return res
		},
	}
}
