package checks

import (
	"fmt"
	"sort"
	"strings"

	ucfg "github.com/elastic/go-ucfg"
	"github.com/elastic/go-ucfg/diff"
	"github.com/elastic/go-ucfg/parse"

	"verif/internal/choice"
	"verif/internal/core"
	"verif/internal/tree"
	vx "verif/internal/varexp"
)

// C09: results never depend on map iteration order. Every map iteration inside
// go-ucfg goes through the order hook of the overlay; for each scenario (a
// deterministic call sequence) the explorer enumerates the orders: every choice
// vector with at most Bound deviating maps, or the whole product when it is small.
// Oracle: the set of observed outcomes is a singleton.

type c09Scenario struct {
	Text string
	Run  func() string
}

func errClass(err error) string {
	if err == nil {
		return "ok"
	}
	e := err
	for i := 0; i < 8; i++ {
		ue, ok := e.(ucfg.Error)
		if !ok || ue.Reason() == nil {
			break
		}
		e = ue.Reason()
	}
	// the innermost reason identifies "the same kind of error"; user texts are dropped.
	// A key used both as a setting and as an object is reported as duplicate key or as
	// expected-object depending on which is seen first: one kind (conflicting keys).
	if e == ucfg.ErrDuplicateKey || e == ucfg.ErrExpectedObject {
		return "error<conflicting keys>"
	}
	s := e.Error()
	if i := strings.Index(s, "'"); i > 0 {
		s = s[:i]
	}
	return "error<" + s + ">"
}

func observeConfig(c *ucfg.Config, opts ...ucfg.Option) string {
	var m map[string]interface{}
	err := c.Unpack(&m, opts...)
	keys := c.FlattenedKeys(opts...)
	d := diff.CompareConfigs(c, c, opts...)
	kept := append([]string{}, d[diff.Keep]...)
	sort.Strings(kept)
	if err != nil {
		return "unpack:" + errClass(err) + " keys=" + fmt.Sprint(keys)
	}
	return "data=" + tree.CanonGoOpt(m, true) + " keys=" + fmt.Sprint(keys) + " kept=" + fmt.Sprint(kept)
}

func c09Explore(sc c09Scenario, bound, fullBudget int) core.Result {
	if vec, replaying := core.ReplayChoices(); replaying {
		// replay of a recorded violation: the sorted-order execution and exactly the recorded one
		var a, b string
		if pi := core.Guard(func() { a = choice.Replay(nil, sc.Run); b = choice.Replay(vec, sc.Run) }); pi != nil {
			return apiPanic("orders", pi)
		}
		if a != b {
			v := core.Fail("orders", "ORDER-DEPENDENT replay", fmt.Sprintf("sorted order => %s || choices %v => %s", trunc200(a), vec, trunc200(b)))
			v.Viol.Choices = vec
			return v
		}
		return core.Result{Nontrivial: true}
	}
	ex := &choice.Explorer{Bound: bound, FullBudget: fullBudget, MaxExec: 20000}
	var res core.Result
	pi := core.Guard(func() {
		ex.Explore(sc.Run)
	})
	if pi != nil {
		return apiPanic("orders", pi)
	}
	res.Trans = ex.Executions
	res.States = len(ex.Outcomes)
	res.Extra = map[string]int{"executions": ex.Executions, "choice_points": ex.Points}
	if ex.Full {
		res.Extra["scenarios_explored_completely"] = 1
	}
	if ex.Capped {
		res.Extra["scenarios_capped"] = 1
	}
	if ex.Executions > 1 {
		res.Extra["scenarios_with_2+_orders"] = 1
		res.Nontrivial = true
	}
	if len(ex.Outcomes) > 1 {
		outs := ex.OutcomeList()
		var parts []string
		for _, o := range outs {
			parts = append(parts, fmt.Sprintf("choices %v => %s", ex.Outcomes[o], trunc200(o)))
		}
		// replay discipline: the first two outcomes must reproduce from their choice vectors
		for _, o := range outs[:2] {
			if again := choice.Replay(ex.Outcomes[o], sc.Run); again != o {
				panic("harness nondeterminism: replaying a choice vector gave a different outcome")
			}
		}
		sigKind := "data"
		if strings.HasPrefix(outs[0], "newfrom:") || strings.HasPrefix(outs[1], "newfrom:") || strings.Contains(outs[0], "error<") != strings.Contains(outs[1], "error<") {
			sigKind = "success-vs-error"
		}
		v := core.Fail("orders", "ORDER-DEPENDENT "+sigKind, fmt.Sprintf("%d distinct outcomes over %d executions: %s", len(outs), ex.Executions, strings.Join(parts, " || ")))
		v.Trans = ex.Executions
		// the non-sorted vector of the pair is what a replay executes
		v.Viol.Choices = ex.Outcomes[outs[0]]
		if deviationsOf(v.Viol.Choices) == 0 {
			v.Viol.Choices = ex.Outcomes[outs[1]]
		}
		return v
	}
	for o := range ex.Outcomes {
		if strings.Contains(o, "error<") {
			res.Outcome = "error"
		} else {
			res.Outcome = "ok"
		}
	}
	return res
}

func deviationsOf(c []int) int {
	n := 0
	for _, x := range c {
		if x != 0 {
			n++
		}
	}
	return n
}

func trunc200(s string) string {
	if len(s) > 220 {
		return s[:220] + "…"
	}
	return s
}

// (i) NewFrom of maps whose keys overlap after dotted-path expansion
func c09NewFrom(tier string) *core.Space {
	keys := []string{"a", "b", "a.b", "a.c", "a.b.c", "a.0", "0"}
	vals := []interface{}{"leaf", nil, M{"b": "vb"}, M{"c": "vc"}, M{"b": M{"c": "vbc"}}, L{"el"}, M{"b": nil, "d": "vd"}, M{"b": M{"c": nil, "d": "vd"}}}
	type entry struct {
		k string
		v int
	}
	var maps [][]entry
	nk, nv := len(keys), len(vals)
	for i := 0; i < nk; i++ {
		for vi := 0; vi < nv; vi++ {
			maps = append(maps, []entry{{keys[i], vi}})
		}
	}
	for i := 0; i < nk; i++ {
		for j := i + 1; j < nk; j++ {
			for vi := 0; vi < nv; vi++ {
				for vj := 0; vj < nv; vj++ {
					maps = append(maps, []entry{{keys[i], vi}, {keys[j], vj}})
				}
			}
		}
	}
	for i := 0; i < nk; i++ {
		for j := i + 1; j < nk; j++ {
			for k := j + 1; k < nk; k++ {
				for vi := 0; vi < nv; vi++ {
					for vj := 0; vj < nv; vj++ {
						for vk := 0; vk < nv; vk++ {
							if tier != "thorough" && (vi+vj+vk)%2 == 1 {
								continue
							}
							maps = append(maps, []entry{{keys[i], vi}, {keys[j], vj}, {keys[k], vk}})
						}
					}
				}
			}
		}
	}
	mk := func(es []entry) M {
		m := M{}
		for _, e := range es {
			m[e.k] = vals[e.v]
		}
		return m
	}
	return &core.Space{
		Name: "newfrom-overlapping-keys",
		Size: len(maps),
		Text: func(i int) string {
			return "NewFrom(" + sortedMapText(mk(maps[i])) + ", PathSep(\".\")) then Unpack/FlattenedKeys/CompareConfigs"
		},
		Exec: func(i int) core.Result {
			sc := c09Scenario{Run: func() string {
				c, err := ucfg.NewFrom(mk(maps[i]), ucfg.PathSep("."))
				if err != nil {
					return "newfrom:" + errClass(err)
				}
				// the same input with numeric keys enabled (numeric single-segment keys are names
				// then, whichever key is normalized first)
				nk := "numkeys:"
				if c2, err := ucfg.NewFrom(mk(maps[i]), ucfg.PathSep("."), ucfg.EnableNumKeys(true)); err != nil {
					nk += errClass(err)
				} else {
					f := c2.GetFields()
					sort.Strings(f)
					nk += fmt.Sprint(f, c2.IsArray(), " ", observeConfig(c2, ucfg.PathSep("."), ucfg.EnableNumKeys(true)))
				}
				o := observeConfig(c, ucfg.PathSep(".")) + " " + nk + " has="
				// which settings exist (an explicit null is a setting)
				for _, p := range []string{"a", "b", "a.b", "a.c", "a.d", "a.b.c", "a.b.d", "a.0", "0"} {
					if h, err := c.Has(p, -1, ucfg.PathSep(".")); err == nil && h {
						o += p + ","
					}
				}
				return o
			}}
			r := c09Explore(sc, 2, 3000)
			if r.Viol != nil {
				m := mk(maps[i])
				if _, isStr := m["a"].(string); isStr {
					if v, has := m["a.0"]; has && v == nil {
						r.Viol.Sig += " (primitive a next to nil a.0)"
					}
				}
			}
			return r
		},
	}
}

// (ii) merges of tree pairs
func c09Merge(ts []*tree.Node) *core.Space {
	n, np := len(ts), len(allPolicies)
	dec := func(i int) (tree.Policy, *tree.Node, *tree.Node) {
		d := mixedRadix(i, n, n, np)
		return allPolicies[d[2]], tree.Label(ts[d[0]], "A"), tree.Label(ts[d[1]], "B")
	}
	return &core.Space{
		Name: "merge-pairs",
		Size: n * n * np,
		Text: func(i int) string {
			p, a, b := dec(i)
			return fmt.Sprintf("policy=%s A=%s B=%s; Merge then Unpack/FlattenedKeys", p, a, b)
		},
		Exec: func(i int) core.Result {
			p, a, b := dec(i)
			sc := c09Scenario{Run: func() string {
				ca, err := ucfg.NewFrom(wrapV(a).ToGo())
				if err != nil {
					return "newfrom:" + errClass(err)
				}
				if err := ca.Merge(wrapV(b).ToGo(), policyOpt[p]...); err != nil {
					return "merge:" + errClass(err)
				}
				return observeConfig(ca)
			}}
			return c09Explore(sc, 1, 500)
		},
	}
}

// (ii-b) merges under field options: several sibling keys with the same shape, options that name
// one of them, wildcards at the top and below a name - whichever sibling is merged first
func c09FieldOptions() *core.Space {
	mk := func(tag string) M {
		sub := func(k string) M {
			return M{"p": M{"x": L{tag + k + "x"}, "y": L{tag + k + "y"}}, "x": L{tag + k + "x2"}, "y": L{tag + k + "y2"}}
		}
		return M{"a": sub("a"), "b": sub("b"), "c": sub("c")}
	}
	optMenu := []struct {
		name string
		opts []ucfg.Option
	}{
		{`**.x prepend + a.**.y append`, []ucfg.Option{ucfg.FieldPrependValues("**.x"), ucfg.FieldAppendValues("a.**.y")}},
		{`a.**.y append + **.x prepend`, []ucfg.Option{ucfg.FieldAppendValues("a.**.y"), ucfg.FieldPrependValues("**.x")}},
		{`**.y append + b.p replace`, []ucfg.Option{ucfg.FieldAppendValues("**.y"), ucfg.FieldReplaceValues("b.p")}},
		{`b.**.x append + c.**.x prepend + **.y replace`, []ucfg.Option{ucfg.FieldAppendValues("b.**.x"), ucfg.FieldPrependValues("c.**.x"), ucfg.FieldReplaceValues("**.y")}},
		{`a append + **.p.x prepend`, []ucfg.Option{ucfg.FieldAppendValues("a"), ucfg.FieldPrependValues("**.p.x")}},
		{`*.x append`, []ucfg.Option{ucfg.FieldAppendValues("*.x")}},
		{`a.p.x append + b.p.y prepend + c replace`, []ucfg.Option{ucfg.FieldAppendValues("a.p.x"), ucfg.FieldPrependValues("b.p.y"), ucfg.FieldReplaceValues("c")}},
	}
	radices := []int{len(optMenu), len(allPolicies), 2}
	return &core.Space{
		Name: "merges-under-field-options",
		Size: product(radices...),
		Text: func(i int) string {
			d := mixedRadix(i, radices...)
			return fmt.Sprintf("global=%s options %s; {a,b,c} with lists x, y at two depths merged (%s)", allPolicies[d[1]], optMenu[d[0]].name, []string{"Merge", "Unpack into a *Config field"}[d[2]])
		},
		Exec: func(i int) core.Result {
			d := mixedRadix(i, radices...)
			sc := c09Scenario{Run: func() string {
				opts := []ucfg.Option{ucfg.PathSep(".")}
				opts = append(opts, policyOpt[allPolicies[d[1]]]...)
				opts = append(opts, optMenu[d[0]].opts...)
				ca, err := ucfg.NewFrom(mk("A"), ucfg.PathSep("."))
				if err != nil {
					return "newfrom:" + errClass(err)
				}
				if d[2] == 0 {
					if err := ca.Merge(mk("B"), opts...); err != nil {
						return "merge:" + errClass(err)
					}
					return observeConfig(ca, ucfg.PathSep("."))
				}
				cb, err := ucfg.NewFrom(M{"t": mk("B")}, ucfg.PathSep("."))
				if err != nil {
					return "newfrom:" + errClass(err)
				}
				tgt := struct{ T *ucfg.Config }{T: ca}
				if err := cb.Unpack(&tgt, opts...); err != nil {
					return "unpack:" + errClass(err)
				}
				return observeConfig(tgt.T, ucfg.PathSep("."))
			}}
			return c09Explore(sc, 1, 300)
		},
	}
}

// (iii) configs whose settings reference each other (the C08 family)
func c09Refs(tier string) *core.Space {
	top := []string{"a", "b"}
	inner := c08Space("x", top, tier == "thorough")
	// reuse the C08 enumeration: decode through its Text/Exec index space
	refNames := append(append([]string{}, top...), "p.q")
	menu := append(c08Menu(refNames), vx.Ref{Name: vx.Lit("p")}, vx.Ref{Name: vx.Lit("p.r")})
	groupMenu := []vx.Exp{vx.Lit("L"), vx.Ref{Name: vx.Lit("a")}, vx.Ref{Name: vx.Lit("p.r")}}
	groupMenuR := []vx.Exp{vx.Lit("L"), vx.Ref{Name: vx.Lit("b")}, vx.Ref{Name: vx.Lit("p.q")}}
	_ = inner
	radices := []int{2, len(menu), len(menu), len(groupMenu), len(groupMenuR)}
	dec := func(i int) (c08Config, bool) {
		d := mixedRadix(i, radices...)
		c := c08Config{settings: map[string]vx.Exp{"a": menu[d[1]], "b": menu[d[2]], "p.q": groupMenu[d[3]], "p.r": groupMenuR[d[4]]}, names: []string{"a", "b", "p.q", "p.r"}}
		return c, d[0] == 1
	}
	return &core.Space{
		Name: "reference-configs",
		Size: product(radices...),
		Text: func(i int) string {
			c, res := dec(i)
			return fmt.Sprintf("{%s} resolver=%v; Unpack into map and struct, FlattenedKeys", c.text(), res)
		},
		Exec: func(i int) core.Result {
			c, withRes := dec(i)
			sc := c09Scenario{Run: func() string {
				opts := []ucfg.Option{ucfg.PathSep("."), ucfg.VarExp}
				if withRes {
					opts = append(opts, ucfg.Resolve(func(name string) (string, parse.Config, error) {
						if name == "a" {
							return "RESa", parse.NoopConfig, nil
						}
						return "", parse.NoopConfig, ucfg.ErrMissing
					}))
				}
				cfg, err := ucfg.NewFrom(c.goValue(), opts...)
				if err != nil {
					return "newfrom:" + errClass(err)
				}
				var st struct {
					A, B string
					P    struct{ Q, R string }
				}
				serr := cfg.Unpack(&st, opts...)
				s := "struct:ok"
				if serr != nil {
					s = "struct:error"
				} else {
					s += fmt.Sprintf("%+v", st)
				}
				o := observeConfig(cfg, opts...)
				if i := strings.Index(o, "unpack:error<"); i >= 0 {
					// several settings can fail independently (missing, cyclic): which failure
					// is met first depends on the order by nature; compared as "error"
					j := strings.Index(o, ">")
					o = o[:i] + "unpack:error" + o[j+1:]
				}
				// a and b alone, read into typed map targets (every key is evaluated on its own, in map order)
				if lq, isLit := c.settings["p.q"].(vx.Lit); isLit && lq == "L" {
					if lr, isLit := c.settings["p.r"].(vx.Lit); isLit && lr == "L" {
						c2 := c08Config{settings: map[string]vx.Exp{"a": c.settings["a"], "b": c.settings["b"]}, names: []string{"a", "b"}}
						if cfg2, err := ucfg.NewFrom(c2.goValue(), opts...); err == nil {
							var ml map[string][]string
							if err := cfg2.Unpack(&ml, opts...); err != nil {
								o += " lists:error"
							} else {
								o += fmt.Sprintf(" lists:%v", ml)
							}
							var ms map[string]string
							if err := cfg2.Unpack(&ms, opts...); err != nil {
								o += " strings:error"
							} else {
								o += fmt.Sprintf(" strings:%v", ms)
							}
						}
					}
				}
				return o + " " + s
			}}
			r := c09Explore(sc, 1, 300)
			if r.Viol != nil && strings.Contains(c.text(), ":+") {
				r.Viol.Sig += " (config uses the :+ operator)"
			}
			return r
		},
	}
}

// (iv) references to lists and objects read into typed map targets (a map target enumerates the
// settings in map order, every key being evaluated with its own set of active references)
func c09Containers() *core.Space {
	size, build := c08ContainerCases()
	extra := []M{
		{"n": 5, "x": "${n}", "y": L{"${n}", 7}, "z": L{1, "${n}"}, "w": L{"${n:0}"}},
		{"n": L{1, 2}, "x": "${n}", "y": "${n}", "z": L{"${n.0}"}},
		{"n": "${m}", "m": 3, "x": "${n}", "y": L{"${n}", "${m}"}},
	}
	get := func(i int) M {
		if i < size {
			return build(i)
		}
		return extra[i-size]
	}
	return &core.Space{
		Name: "container-references-into-typed-maps",
		Size: size + len(extra),
		Text: func(i int) string {
			return fmt.Sprintf("%s unpacked into map[string]interface{}, map[string][]interface{}, map[string][]int and struct{A,B []interface{}}", tree.CanonGo(map[string]interface{}(get(i))))
		},
		Exec: func(i int) core.Result {
			in := get(i)
			sc := c09Scenario{Run: func() string {
				opts := []ucfg.Option{ucfg.PathSep("."), ucfg.VarExp}
				cfg, err := ucfg.NewFrom(in, opts...)
				if err != nil {
					return "newfrom:" + errClass(err)
				}
				out := ""
				show := func(name string, v interface{}, err error) {
					if err != nil {
						out += name + ":error "
						return
					}
					out += name + ":" + tree.CanonGo(v) + " "
				}
				var m1 map[string]interface{}
				err = cfg.Unpack(&m1, opts...)
				show("map", m1, err) // (what a failed call leaves in the target is not compared)
				var m2 map[string][]interface{}
				err = cfg.Unpack(&m2, opts...)
				g2 := map[string]interface{}{}
				for k, v := range m2 {
					g2[k] = v
				}
				show("lists", g2, err)
				var m3 map[string][]int
				err = cfg.Unpack(&m3, opts...)
				g3 := map[string]interface{}{}
				for k, v := range m3 {
					l := make([]interface{}, len(v))
					for j, x := range v {
						l[j] = x
					}
					g3[k] = l
				}
				show("ints", g3, err)
				var st struct{ A, B []interface{} }
				err = cfg.Unpack(&st, opts...)
				show("struct", map[string]interface{}{"a": st.A, "b": st.B}, err)
				return out
			}}
			return c09Explore(sc, 2, 300)
		},
	}
}

// (v) the same reference text in the configuration and in an Env configuration: each is resolved
// in the tree it lives in, whichever setting is read first
func c09Env() *core.Space {
	menu := []string{"${x}", "${e.y}", "${e.z}", "pre-${x}", "${e.y}${x}", "${e.w}", "lit"}
	envs := []M{
		{"x": "envx", "e": M{"y": "${x}", "z": "lit", "w": "${e.y}"}},
		{"x": "envx", "e": M{"y": "<${x}>", "z": "${x}", "w": "${x}"}},
		// (the last two are given as two Env configurations, see below)
		{"x": "envx", "e": M{"y": "${x}", "z": "lit", "w": "${e.y}"}},
		{"x": "envx", "e": M{"y": "<${x}>", "z": "${x}", "w": "${x}"}},
	}
	// split: the settings of e are spread over two Env configurations (y, w in the first, z in the
	// second), so that different references are answered by different environments
	split := func(i int) bool { return i >= 2 }
	radices := []int{len(menu), len(menu), len(menu), len(envs)}
	return &core.Space{
		Name: "references-with-env",
		Size: product(radices...),
		Text: func(i int) string {
			d := mixedRadix(i, radices...)
			return fmt.Sprintf("{x: rootx, a: %q, b: %q, c: %q} unpacked with Env(%s) into map and struct", menu[d[0]], menu[d[1]], menu[d[2]], tree.CanonGo(map[string]interface{}(envs[d[3]])))
		},
		Exec: func(i int) core.Result {
			d := mixedRadix(i, radices...)
			sc := c09Scenario{Run: func() string {
				opts := []ucfg.Option{ucfg.PathSep("."), ucfg.VarExp}
				cfg, err := ucfg.NewFrom(M{"x": "rootx", "a": menu[d[0]], "b": menu[d[1]], "c": menu[d[2]]}, opts...)
				if err != nil {
					return "newfrom:" + errClass(err)
				}
				envData := envs[d[3]]
				var uopts []ucfg.Option
				if split(d[3]) {
					e := envData["e"].(M)
					e1, err1 := ucfg.NewFrom(M{"x": envData["x"], "e": M{"y": e["y"], "w": e["w"]}}, opts...)
					e2, err2 := ucfg.NewFrom(M{"x": envData["x"], "e": M{"z": e["z"]}}, opts...)
					if err1 != nil || err2 != nil {
						return "newfrom-env:error"
					}
					uopts = append([]ucfg.Option{ucfg.Env(e1), ucfg.Env(e2)}, opts...)
				} else {
					env, err := ucfg.NewFrom(envData, opts...)
					if err != nil {
						return "newfrom-env:" + errClass(err)
					}
					uopts = append([]ucfg.Option{ucfg.Env(env)}, opts...)
				}
				var m map[string]interface{}
				if err := cfg.Unpack(&m, uopts...); err != nil {
					return "unpack:error"
				}
				var st struct{ C, B, A, X string }
				if err := cfg.Unpack(&st, uopts...); err != nil {
					return "struct:error"
				}
				return "data=" + tree.CanonGo(m) + fmt.Sprintf(" struct=%+v", st)
			}}
			return c09Explore(sc, 1, 130)
		},
	}
}

func init() {
	core.Register(&core.Check{
		ID:    "C09",
		Level: "model_checking",
		Rule:  "stateless exploration of map enumeration orders: each scenario (NewFrom of maps with overlapping dotted keys; Merge of tree pairs under 5 policies; Unpack of mutually referencing settings into map and struct; Unpack of references that exist both in the configuration and in an Env configuration; Unpack of references to lists and objects (diamonds) into typed maps and structs; each followed by Unpack, FlattenedKeys and CompareConfigs) is re-executed under every vector of order choices with at most Bound non-sorted maps, and under the complete product of orders when that is small; all 12 map-iteration sites of go-ucfg are routed through the order hook; oracle: one outcome (success or innermost error reason, canonical data, keys) per scenario; states = distinct outcomes, transitions = executions; non-trivial = scenario with at least two explored orders; plus interface-keyed maps with overlapping dotted keys and mutually referring settings read into typed map targets",
		Assumptions: []string{
			"maps with <=5 keys: all permutations; larger: rotations, reversal, first-two swap (none occur in these scenarios)",
			"deviation bound 1-2 per scenario class unless the whole product (<= budget) is explored, which is counted in scenarios_explored_completely",
			"every legal Go map order is a permutation of the sorted order, so every behaviour explored is a behaviour of the uninstrumented program",
		},
		Spaces: func(tier string) []*core.Space {
			ts := cachedEnum(1, kAB, 2)
			if tier == "thorough" {
				ts = unionTrees(ts, spines(1), mixedTrees(false)[:30])
			}
			return []*core.Space{c09NewFrom(tier), c09IfaceKeys(), c09IfaceOverlap(), c09MergeOverRefs(), c09Merge(ts), c09FieldOptions(), c09Env(), c09Containers(), c09Refs(tier)}
		},
		Post: func(tier string, cov map[string]interface{}) {
			// states/transitions are aggregated by the runner from Result.States/Trans
		},
	})
}
