package checks

import (
	"fmt"
	"math/big"
	"reflect"
	"strconv"

	ucfg "github.com/elastic/go-ucfg"
	"github.com/elastic/go-ucfg/parse"

	"verif/internal/core"
)

// C03, settings whose value is typed from text by the parse package (a resolver's answer, a
// spliced string): decimal integer texts around every boundary, also beyond 64 bits. The value
// of such a setting is the number the text denotes, typed as the documentation of parse says:
// an int64 if it fits, else a uint64 if it fits, else the nearest float64. From there on the
// rule of the other spaces applies.
func c03ParsedText() *core.Space {
	var texts []string
	seen := map[string]bool{}
	add := func(v *big.Int) {
		for _, x := range []*big.Int{v, new(big.Int).Neg(v)} {
			if s := x.String(); !seen[s] {
				seen[s] = true
				texts = append(texts, s)
			}
		}
	}
	add(big.NewInt(0))
	add(big.NewInt(1))
	for _, k := range []uint{7, 8, 31, 32, 53, 63, 64} {
		p := new(big.Int).Lsh(big.NewInt(1), k)
		add(new(big.Int).Sub(p, big.NewInt(1)))
		add(p)
		add(new(big.Int).Add(p, big.NewInt(1)))
	}
	add(new(big.Int).Exp(big.NewInt(10), big.NewInt(19), nil))
	add(new(big.Int).Exp(big.NewInt(10), big.NewInt(20), nil))
	var targets []reflect.Type
	for _, t := range c03Targets {
		k := t.Kind()
		if (k >= reflect.Int && k <= reflect.Uintptr || k == reflect.Float32 || k == reflect.Float64) && t.PkgPath() == "" {
			targets = append(targets, t)
		}
	}
	typed := func(text string) c03Source {
		if i, err := strconv.ParseInt(text, 10, 64); err == nil {
			return c03Source{Kind: "int", I: i}
		}
		if u, err := strconv.ParseUint(text, 10, 64); err == nil {
			return c03Source{Kind: "uint", U: u}
		}
		f, _ := strconv.ParseFloat(text, 64)
		return c03Source{Kind: "float", F: f}
	}
	deliveries := []string{"a resolver's answer", "a spliced string (sign and digits)"}
	radices := []int{len(texts), len(targets), len(deliveries)}
	return &core.Space{
		Name: "values-typed-from-text",
		Size: product(radices...),
		Text: func(i int) string {
			d := mixedRadix(i, radices...)
			return fmt.Sprintf("text %s delivered as %s -> %v", texts[d[0]], deliveries[d[2]], targets[d[1]])
		},
		Exec: func(i int) core.Result {
			d := mixedRadix(i, radices...)
			text, t := texts[d[0]], targets[d[1]]
			src := typed(text)
			exp := c03Rule(src, t)
			var res core.Result
			pi := core.Guard(func() {
				opts := []ucfg.Option{ucfg.VarExp}
				c := ucfg.New()
				if d[2] == 0 {
					opts = append(opts, ucfg.Resolve(func(name string) (string, parse.Config, error) {
						if name == "t" {
							return text, parse.DefaultConfig, nil
						}
						return "", parse.DefaultConfig, ucfg.ErrMissing
					}))
					if err := c.Merge(M{"v": "${t}"}, opts...); err != nil {
						res = core.Fail("parsed", "BUILD", err.Error())
						return
					}
				} else {
					sign, digits := "", text
					if text[0] == '-' {
						sign, digits = "-", text[1:]
					}
					if err := c.SetString("d", -1, digits); err != nil {
						res = core.Fail("parsed", "BUILD", err.Error())
						return
					}
					if err := c.Merge(M{"v": sign + "${d}"}, opts...); err != nil {
						res = core.Fail("parsed", "BUILD", err.Error())
						return
					}
				}
				st := reflect.New(reflect.StructOf([]reflect.StructField{{Name: "V", Type: t, Tag: `config:"v"`}}))
				uerr := c.Unpack(st.Interface(), opts...)
				res = c03Judge(src, t, exp, uerr, st.Elem().Field(0), "Unpack (text "+text+")")
			})
			if pi != nil {
				return apiPanic("parsed", pi)
			}
			return res
		},
	}
}
