package checks

import (
	"fmt"
	"reflect"
	"sort"
	"strings"

	ucfg "github.com/elastic/go-ucfg"

	"verif/internal/core"
)

// C13, second part: collection shapes. A field F of a generated type (arrays, slices, maps,
// pointers and interfaces nested two deep over int and struct{X int; Y string}) is pre-filled and
// unpacked over under the default / append / prepend policy; the model below merges the generic
// configuration data into a deep copy of the pre-filled value following the documented rules.

// c13Merge returns the model result of unpacking cfg (generic data) over old (value of type t).
// pol applies to slices: 0 index merge, 1 append, 2 prepend.
func c13Merge(t reflect.Type, old reflect.Value, cfg interface{}, pol int) reflect.Value {
	if !old.IsValid() {
		old = reflect.Zero(t)
	}
	out := reflect.New(t).Elem()
	switch t.Kind() {
	case reflect.Int:
		out.SetInt(int64(cfg.(int)))
	case reflect.String:
		out.SetString(cfg.(string))
	case reflect.Struct:
		out.Set(old)
		for k, v := range cfg.(M) {
			for i := 0; i < t.NumField(); i++ {
				if lower(t.Field(i).Name) == k {
					out.Field(i).Set(c13Merge(t.Field(i).Type, old.Field(i), v, pol))
				}
			}
		}
	case reflect.Ptr:
		var inner reflect.Value
		if !old.IsNil() {
			inner = old.Elem()
		}
		p := reflect.New(t.Elem())
		p.Elem().Set(c13Merge(t.Elem(), inner, cfg, pol))
		out.Set(p)
	case reflect.Interface:
		if old.IsNil() {
			panic("model: nil interface not generated")
		}
		out.Set(c13Merge(old.Elem().Type(), old.Elem(), cfg, pol))
	case reflect.Map:
		m := reflect.MakeMap(t)
		if !old.IsNil() {
			for _, k := range old.MapKeys() {
				m.SetMapIndex(k, old.MapIndex(k))
			}
		}
		for k, v := range cfg.(M) {
			var prev reflect.Value
			if !old.IsNil() {
				prev = old.MapIndex(reflect.ValueOf(k))
			}
			et := t.Elem()
			if et.Kind() == reflect.Interface && !prev.IsValid() {
				panic("model: new key in a map of interfaces not generated")
			}
			m.SetMapIndex(reflect.ValueOf(k), c13Merge(et, prev, v, pol))
		}
		out.Set(m)
	case reflect.Array:
		l := cfg.(L)
		for i := 0; i < t.Len(); i++ {
			out.Index(i).Set(c13Merge(t.Elem(), old.Index(i), l[i], pol))
		}
	case reflect.Slice:
		l := cfg.(L)
		var elems []reflect.Value
		fresh := func(v interface{}) reflect.Value { return c13Merge(t.Elem(), reflect.Value{}, v, pol) }
		switch pol {
		case 1:
			for i := 0; i < old.Len(); i++ {
				elems = append(elems, old.Index(i))
			}
			for _, v := range l {
				elems = append(elems, fresh(v))
			}
		case 2:
			for _, v := range l {
				elems = append(elems, fresh(v))
			}
			for i := 0; i < old.Len(); i++ {
				elems = append(elems, old.Index(i))
			}
		default:
			for i, v := range l {
				if i < old.Len() {
					elems = append(elems, c13Merge(t.Elem(), old.Index(i), v, pol))
				} else {
					elems = append(elems, fresh(v))
				}
			}
			for i := len(l); i < old.Len(); i++ {
				elems = append(elems, old.Index(i))
			}
		}
		s := reflect.MakeSlice(t, len(elems), len(elems))
		for i, e := range elems {
			s.Index(i).Set(e)
		}
		out.Set(s)
	default:
		panic("model: kind " + t.Kind().String())
	}
	return out
}

func lower(s string) string {
	b := []byte(s)
	for i := range b {
		if b[i] >= 'A' && b[i] <= 'Z' {
			b[i] += 'a' - 'A'
		}
	}
	return string(b)
}

// c13Show renders a value following pointers and interfaces, maps sorted.
func c13Show(v reflect.Value) string {
	if !v.IsValid() {
		return "<invalid>"
	}
	switch v.Kind() {
	case reflect.Ptr, reflect.Interface:
		if v.IsNil() {
			return "nil"
		}
		return "&" + c13Show(v.Elem())
	case reflect.Struct:
		s := "{"
		for i := 0; i < v.NumField(); i++ {
			s += v.Type().Field(i).Name + ":" + c13Show(v.Field(i)) + " "
		}
		return s + "}"
	case reflect.Map:
		var ks []string
		for _, k := range v.MapKeys() {
			ks = append(ks, k.String())
		}
		sort.Strings(ks)
		s := "map["
		for _, k := range ks {
			s += k + ":" + c13Show(v.MapIndex(reflect.ValueOf(k))) + " "
		}
		return s + "]"
	case reflect.Slice, reflect.Array:
		s := "["
		for i := 0; i < v.Len(); i++ {
			s += c13Show(v.Index(i)) + " "
		}
		return s + "]"
	case reflect.String:
		return fmt.Sprintf("%q", v.String())
	}
	return fmt.Sprint(v.Interface())
}

type c13Shape struct {
	Name string
	Pre  func() interface{} // pre-filled value of F (fresh each time)
	Cfgs []interface{}      // settings for f
}

func c13Shapes() []c13Shape {
	in := func(x int, y string) c13Inner { return c13Inner{x, y} }
	return []c13Shape{
		{"[2]struct", func() interface{} { return [2]c13Inner{in(1, "a"), in(2, "b")} }, []interface{}{L{M{"x": 9}, M{"y": "n"}}, L{M{}, M{"x": 7, "y": "m"}}}},
		{"[2][]int", func() interface{} { return [2][]int{{1, 2, 3}, {4, 5, 6}} }, []interface{}{L{L{7}, L{8}}, L{L{7, 8, 9, 10}, L{}}}},
		{"[2]map[string]int", func() interface{} { return [2]map[string]int{{"a": 1}, {"b": 2}} }, []interface{}{L{M{"a": 5}, M{"c": 6}}}},
		{"[2]*struct", func() interface{} { return [2]*c13Inner{{1, "a"}, nil} }, []interface{}{L{M{"x": 9}, M{"y": "n"}}}},
		{"[1][1]struct", func() interface{} { return [1][1]c13Inner{{in(1, "a")}} }, []interface{}{L{L{M{"x": 9}}}}},
		{"map[string][]int", func() interface{} { return map[string][]int{"http": {80, 81, 82}, "other": {1}} }, []interface{}{M{"http": L{8080}}, M{"new": L{5}}, M{"http": L{1, 2, 3, 4}, "other": L{}}}},
		{"map[string][2]int", func() interface{} { return map[string][2]int{"k": {1, 2}} }, []interface{}{M{"k": L{5, 6}}}}, // (a new key is not generated: an array needs an existing value to be unpacked into)
		{"map[string]struct", func() interface{} { return map[string]c13Inner{"k": in(1, "y")} }, []interface{}{M{"k": M{"x": 5}}, M{"n": M{"y": "z"}}}},
		{"map[string]*struct", func() interface{} { return map[string]*c13Inner{"k": {1, "y"}} }, []interface{}{M{"k": M{"x": 5}}, M{"n": M{"y": "z"}}}},
		{"map[string]map[string]int", func() interface{} { return map[string]map[string]int{"k": {"a": 1, "b": 2}} }, []interface{}{M{"k": M{"a": 5}}, M{"n": M{"c": 3}}}},
		{"map[string][]struct", func() interface{} { return map[string][]c13Inner{"k": {in(1, "a"), in(2, "b")}} }, []interface{}{M{"k": L{M{"x": 9}}}}},
		{"map[string]*[]int", func() interface{} { return map[string]*[]int{"k": {1, 2, 3}} }, []interface{}{M{"k": L{9}}}},
		{"[]map[string]int", func() interface{} { return []map[string]int{{"a": 1, "b": 2}} }, []interface{}{L{M{"a": 5}}, L{M{"a": 5}, M{"c": 6}}}},
		{"[][]int", func() interface{} { return [][]int{{1, 2}, {3}} }, []interface{}{L{L{9}}, L{L{9}, L{8, 7}, L{6}}}},
		{"[][2]int", func() interface{} { return [][2]int{{1, 2}} }, []interface{}{L{L{5, 6}}, L{L{5, 6}, L{7, 8}}}},
		{"[]*struct", func() interface{} { return []*c13Inner{{1, "a"}} }, []interface{}{L{M{"x": 9}}, L{M{"x": 9}, M{"y": "n"}}}},
		{"*[]int", func() interface{} { l := []int{1, 2, 3}; return &l }, []interface{}{L{9}, L{9, 8, 7, 6}}},
		{"*[2]int", func() interface{} { return &[2]int{1, 2} }, []interface{}{L{5, 6}}},
		{"*map[string]int", func() interface{} { return &map[string]int{"a": 1} }, []interface{}{M{"b": 2}}},
		{"**struct", func() interface{} { p := &c13Inner{1, "a"}; return &p }, []interface{}{M{"x": 9}}},
		{"interface{}(map[string]interface{})", func() interface{} { var i interface{} = map[string]interface{}{"a": 1, "b": "s"}; return &i }, []interface{}{M{"a": 5}}},
		{"interface{}(struct)", func() interface{} { var i interface{} = in(1, "a"); return &i }, []interface{}{M{"x": 9}}},
		{"interface{}(*struct)", func() interface{} { var i interface{} = &c13Inner{1, "a"}; return &i }, []interface{}{M{"y": "n"}}},
		{"interface{}([]int)", func() interface{} { var i interface{} = []int{1, 2, 3}; return &i }, []interface{}{L{9}}},
		{"interface{}([2]int)", func() interface{} { var i interface{} = [2]int{1, 2}; return &i }, []interface{}{L{5, 6}}},
		{"map[string]interface{}(struct, []int)", func() interface{} {
			return map[string]interface{}{"s": in(1, "a"), "l": []int{1, 2, 3}}
		}, []interface{}{M{"s": M{"x": 9}}, M{"l": L{7}}}},
	}
}

func c13Collections() *core.Space {
	shapes := c13Shapes()
	type cs struct{ shape, cfg, pol, sibling int }
	var cases []cs
	for si, sh := range shapes {
		for ci := range sh.Cfgs {
			for pol := 0; pol < 3; pol++ {
				for sib := 0; sib < 2; sib++ {
					cases = append(cases, cs{si, ci, pol, sib})
				}
				// sibling 3: the setting is written as a reference to the value (f: "${src}")
				if sh.Cfgs[ci] != nil {
					cases = append(cases, cs{si, ci, pol, 3})
				}
			}
		}
	}
	polTag := []string{`config:"f"`, `config:"f,append"`, `config:"f,prepend"`}
	// the map shapes are unpacked a second way: as an inlined field (the settings of the map sit at
	// the level of the struct), with the same policies
	inlTag := []string{`config:",inline"`, `config:",inline,append"`, `config:",inline,prepend"`}
	isInlineable := func(name string) bool { return strings.HasPrefix(name, "map[string]") }
	for si, sh := range shapes {
		if !isInlineable(sh.Name) {
			continue
		}
		for ci := range sh.Cfgs {
			for pol := 0; pol < 3; pol++ {
				cases = append(cases, cs{si, ci, pol, 2})
			}
		}
	}
	return &core.Space{
		Name: "collection-shapes",
		Size: len(cases),
		Text: func(i int) string {
			c := cases[i]
			sh := shapes[c.shape]
			if c.sibling == 2 {
				return fmt.Sprintf("F %s `%s` pre-filled %s, config (at the level of the struct): %v", sh.Name, inlTag[c.pol], c13Show(reflect.ValueOf(sh.Pre())), sh.Cfgs[c.cfg])
			}
			return fmt.Sprintf("F %s `%s` pre-filled %s, config f: %v%s", sh.Name, polTag[c.pol], c13Show(reflect.ValueOf(sh.Pre())), sh.Cfgs[c.cfg], []string{"", " (and a setting for the sibling field)", "", " (written as f: ${src} with src holding the value, VarExp)"}[c.sibling])
		},
		Exec: func(i int) core.Result {
			c := cases[i]
			sh := shapes[c.shape]
			var res core.Result
			sig := fmt.Sprintf("%s %s", sh.Name, []string{"default", "append", "prepend"}[c.pol])
			pi := core.Guard(func() {
				pre := reflect.ValueOf(sh.Pre())
				ft := pre.Type()
				// the interface shapes hand in *interface{}: the field type is interface{}
				if ft.Kind() == reflect.Ptr && ft.Elem().Kind() == reflect.Interface {
					pre = pre.Elem()
					ft = pre.Type()
				}
				tag := polTag[c.pol]
				if c.sibling == 2 {
					tag = inlTag[c.pol]
					sig += " inline"
				}
				st := reflect.StructOf([]reflect.StructField{
					{Name: "F", Type: ft, Tag: reflect.StructTag(tag)},
					{Name: "Sib", Type: reflect.TypeOf(0)},
					{Name: "Keep", Type: reflect.TypeOf("")},
				})
				target := reflect.New(st)
				target.Elem().Field(0).Set(pre)
				target.Elem().Field(1).SetInt(3)
				target.Elem().Field(2).SetString("kept")
				// the expectation is computed on an independent copy of the pre-filled value
				pre2 := reflect.ValueOf(sh.Pre())
				if pre2.Type() != ft {
					pre2 = pre2.Elem()
				}
				want := c13Merge(ft, pre2, sh.Cfgs[c.cfg], c.pol)
				in := M{"f": sh.Cfgs[c.cfg]}
				if c.sibling == 2 {
					in = sh.Cfgs[c.cfg].(M)
				}
				wantSib := int64(3)
				if c.sibling == 1 {
					in["sib"] = 4
					wantSib = 4
				}
				var copts []ucfg.Option
				if c.sibling == 3 {
					in = M{"f": "${src}", "src": sh.Cfgs[c.cfg]}
					copts = []ucfg.Option{ucfg.VarExp}
					sig += " via reference"
				}
				cfg, err := ucfg.NewFrom(in, copts...)
				if err != nil {
					res = core.Fail("collections", "BUILD", err.Error())
					return
				}
				if err := cfg.Unpack(target.Interface(), copts...); err != nil {
					res = core.Fail("collections", "UNPACK-FAILED "+sig, firstLine(err.Error()))
					return
				}
				got := target.Elem()
				if g, w := c13Show(got.Field(0)), c13Show(want); g != w {
					res = core.Fail("collections", "WRONG-MERGE "+sig, fmt.Sprintf("model %s impl %s", w, g))
					return
				}
				if got.Field(1).Int() != wantSib || got.Field(2).String() != "kept" {
					res = core.Fail("collections", "SIBLING-CHANGED "+sig, fmt.Sprintf("Sib=%d Keep=%q", got.Field(1).Int(), got.Field(2).String()))
					return
				}
				res.Nontrivial = true
				res.Outcome = "ok"
			})
			if pi != nil {
				return apiPanic("collections", pi)
			}
			return res
		},
	}
}

// C13, failure clause next to InitDefaults: whatever the config mentions (nothing at all included), a failing
// Unpack leaves the struct as it was - the defaults are not written either.
type c13IDSub struct {
	Max int `config:"max"`
	Min int `config:"min"`
}

func (s *c13IDSub) InitDefaults() { s.Max = 100 }
func (s c13IDSub) Validate() error {
	if s.Min > s.Max {
		return fmt.Errorf("min > max")
	}
	return nil
}

type c13IDT struct {
	Port int        `config:"port"`
	Name string     `config:"name"`
	Sub  c13IDSub   `config:"sub"`
	Ptr  *c13IDSub  `config:"ptr"`
	Lst  []c13IDSub `config:"lst"`
	Req  string     `config:"req" validate:"required"`
}

func (t *c13IDT) InitDefaults() { t.Port = 8080; t.Sub.Min = 1 }

func c13InitDefaultsFailures() *core.Space {
	cfgs := []struct {
		Name string
		Mk   func() *ucfg.Config
	}{
		{"New()", func() *ucfg.Config { return ucfg.New() }},
		{"NewFrom({})", func() *ucfg.Config { return mustCfg(M{}) }},
		{"Child(\"e\") of {e: {}, o: {req: x}}", func() *ucfg.Config {
			c, _ := mustCfg(M{"e": M{}, "o": M{"req": "x"}}).Child("e", -1)
			return c
		}},
		{"{unrelated: 1}", func() *ucfg.Config { return mustCfg(M{"unrelated": 1}) }},
		{"{port: 1}", func() *ucfg.Config { return mustCfg(M{"port": 1}) }},
		{"{sub: {min: 200}}", func() *ucfg.Config { return mustCfg(M{"sub": M{"min": 200}}) }},
		{"{req: x, sub: {min: 200}}", func() *ucfg.Config { return mustCfg(M{"req": "x", "sub": M{"min": 200}}) }},
		{"{req: x, ptr: {min: 200}}", func() *ucfg.Config { return mustCfg(M{"req": "x", "ptr": M{"min": 200}}) }},
		{"{req: x, lst: [{}, {min: 200}]}", func() *ucfg.Config { return mustCfg(M{"req": "x", "lst": L{M{}, M{"min": 200}}}) }},
		{"{req: x, port: bad}", func() *ucfg.Config { return mustCfg(M{"req": "x", "port": "bad"}) }},
		{"{req: x}", func() *ucfg.Config { return mustCfg(M{"req": "x"}) }},
		{"{req: x, sub: {min: 2}}", func() *ucfg.Config { return mustCfg(M{"req": "x", "sub": M{"min": 2}}) }},
	}
	pre := []struct {
		Name string
		Mk   func() *c13IDT
	}{
		{"zero", func() *c13IDT { return &c13IDT{} }},
		{"pre-filled", func() *c13IDT {
			return &c13IDT{Port: 1, Name: "n", Sub: c13IDSub{Max: 3, Min: 2}, Ptr: &c13IDSub{Max: 4}, Lst: []c13IDSub{{5, 1}}}
		}},
		{"pre-filled with the required field", func() *c13IDT {
			return &c13IDT{Port: 1, Sub: c13IDSub{Max: 300, Min: 2}, Req: "r"}
		}},
	}
	radices := []int{len(cfgs), len(pre)}
	return &core.Space{
		Name: "initdefaults-x-configs-x-failures",
		Size: product(radices...),
		Text: func(i int) string {
			d := mixedRadix(i, radices...)
			return fmt.Sprintf("%s unpacked into a %s struct with InitDefaults (also nested, behind a pointer and in a list), a required field and a nested Validate", cfgs[d[0]].Name, pre[d[1]].Name)
		},
		Exec: func(i int) core.Result {
			d := mixedRadix(i, radices...)
			var res core.Result
			pi := core.Guard(func() {
				t := pre[d[1]].Mk()
				before := c13Shallow(reflect.ValueOf(t).Elem())
				ptrBefore := ""
				if t.Ptr != nil {
					ptrBefore = fmt.Sprintf("%+v", *t.Ptr)
				}
				err := cfgs[d[0]].Mk().Unpack(t)
				if err != nil {
					if after := c13Shallow(reflect.ValueOf(t).Elem()); after != before {
						res = core.Fail("initdefaults", "CHANGED-ON-FAILURE struct with InitDefaults", "Unpack failed ("+firstLine(err.Error())+") but the struct changed: before "+before+" after "+after)
						return
					}
					_ = ptrBefore
					res = core.Result{Nontrivial: true, Outcome: "failure, unchanged"}
					return
				}
				// success: the result satisfies what made the others fail
				if t.Req == "" || t.Sub.Min > t.Sub.Max || t.Port == 0 {
					res = core.Fail("initdefaults", "SUCCESS-WITH-INVALID-RESULT struct with InitDefaults", fmt.Sprintf("%+v", *t))
					return
				}
				res = core.Result{Nontrivial: true, Outcome: "success"}
			})
			if pi != nil {
				return apiPanic("initdefaults", pi)
			}
			return res
		},
	}
}
