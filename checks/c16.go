package checks

import (
	"fmt"
	"strings"

	ucfg "github.com/elastic/go-ucfg"

	"verif/internal/core"
	"verif/internal/tree"
)

// C16: a per-field merge policy applies to exactly the named subtree.
// Model: the policy in force at a node is the policy of the longest prefix of the
// node's path that is named by a field option (a `*` segment matches any one
// segment, a leading `**` any number of leading segments); otherwise the global
// policy. Everything else is the C01 merge model.

type fieldOpt struct {
	Path   string
	Policy tree.Policy // Default stands for FieldMergeValues
}

var fieldPolicies = []tree.Policy{tree.Default, tree.Replace, tree.Append, tree.Prepend}

func fieldOptName(p tree.Policy) string {
	switch p {
	case tree.Replace:
		return "FieldReplaceValues"
	case tree.Append:
		return "FieldAppendValues"
	case tree.Prepend:
		return "FieldPrependValues"
	}
	return "FieldMergeValues"
}

func (f fieldOpt) option() ucfg.Option {
	switch f.Policy {
	case tree.Replace:
		return ucfg.FieldReplaceValues(f.Path)
	case tree.Append:
		return ucfg.FieldAppendValues(f.Path)
	case tree.Prepend:
		return ucfg.FieldPrependValues(f.Path)
	}
	return ucfg.FieldMergeValues(f.Path)
}

func isIndexSeg(s string) bool {
	return s != "" && s[0] >= '0' && s[0] <= '9'
}

// matchPattern: does pat name exactly the node at path? A `*` segment stands for a
// list level (any index), a leading `**` for any number of leading segments. With
// transparent=true list indices in the path that the pattern does not name are
// skipped ("a.x" also names a.0.x) - the statement does not say whether a name
// sees through a list level, so both readings are accepted (see DESIGN.md, C16).
func matchPattern(pat, path []string, transparent bool) bool {
	if len(pat) > 0 && pat[0] == "**" {
		rest := pat[1:]
		for skip := 0; skip <= len(path); skip++ {
			if matchPattern(rest, path[skip:], transparent) {
				return true
			}
		}
		return false
	}
	if len(path) == 0 {
		return len(pat) == 0
	}
	if isIndexSeg(path[0]) {
		// (only a name sees through a list level: a position named by the pattern is a
		// position of this very list, "a.1" does not name a.0.1)
		if transparent && (len(pat) == 0 || (!isIndexSeg(pat[0]) && pat[0] != "*")) && matchPattern(pat, path[1:], transparent) {
			return true
		}
		return len(pat) > 0 && (pat[0] == path[0] || pat[0] == "*") && matchPattern(pat[1:], path[1:], transparent)
	}
	return len(pat) > 0 && pat[0] == path[0] && matchPattern(pat[1:], path[1:], transparent)
}

// patSegs splits an option path; a trailing ".*" is the option's own spelling of
// "everything below" and names the same subtree.
func patSegs(p string) []string {
	return strings.Split(strings.TrimSuffix(p, ".*"), ".")
}

// undefinedPattern: the statement only says that `**` lifts the "exactly this path"
// restriction; what several segments after `**` mean is not defined.
func undefinedPattern(p string) bool {
	segs := patSegs(p)
	return len(segs) > 2 && segs[0] == "**"
}

func fieldPolicyFn(global tree.Policy, opts []fieldOpt, transparent bool) tree.PolicyFn {
	return func(path []string) tree.Policy {
		for l := len(path); l >= 1; l-- {
			// a pattern naming the path itself is more specific than a ** pattern; among
			// equally specific ones the later option overrides the earlier
			for _, wantWild := range []bool{false, true} {
				for i := len(opts) - 1; i >= 0; i-- {
					segs := patSegs(opts[i].Path)
					if (segs[0] == "**") != wantWild {
						continue
					}
					if matchPattern(segs, path[:l], transparent) {
						return opts[i].Policy
					}
				}
			}
		}
		return global
	}
}

// ambiguousPair: "p" and "p.*..." are rendered into the same entry of the option tree
// (the handling of p and the element selector below p share the key "*").
func ambiguousPair(a, b string) bool {
	strip := func(p string) string {
		segs := patSegs(p)
		for len(segs) > 0 && segs[len(segs)-1] == "*" {
			segs = segs[:len(segs)-1]
		}
		return strings.Join(segs, ".")
	}
	// a ** pattern whose name is an intermediate component of the other path: which of the
	// two overlapping options governs below that component is not defined by the statement
	overl := func(w, p string) bool {
		ws, ps := patSegs(w), patSegs(p)
		if ws[0] != "**" || len(ws) != 2 {
			return false
		}
		for _, seg := range ps[:len(ps)-1] {
			if seg == ws[1] {
				return true
			}
		}
		return false
	}
	if overl(a, b) || overl(b, a) {
		return true
	}
	// two wildcard patterns ending in the same name can name the same node: no precedence defined
	if strings.Contains(a, "*") && strings.Contains(b, "*") {
		as, bs := patSegs(a), patSegs(b)
		if as[len(as)-1] == bs[len(bs)-1] {
			return true
		}
	}
	sa, sb := strip(a), strip(b)
	return sa == sb || strings.HasPrefix(patJoin(a), sb+".*") || strings.HasPrefix(patJoin(b), sa+".*")
}

func patJoin(p string) string { return strings.Join(patSegs(p), ".") }

func noNilTrees(d int, keys []string, maxL int) []*tree.Node {
	var out []*tree.Node
	for _, n := range cachedEnum(d, keys, maxL) {
		if !strings.Contains(n.String(), "~") {
			out = append(out, n)
		}
	}
	return out
}

// spinesAB: like spines, but the container child may sit under key a or b, so that
// the same name occurs at several depths.
func spinesAB(depth int) []*tree.Node {
	cur := []*tree.Node{tree.LeafN("L"), tree.Dict("a", tree.LeafN("L")), tree.Dict("b", tree.LeafN("L")), tree.List(tree.LeafN("L")), tree.List(tree.LeafN("L"), tree.LeafN("L"))}
	for d := 0; d < depth; d++ {
		var nx []*tree.Node
		for _, c := range cur {
			nx = append(nx,
				tree.Dict("a", c),
				tree.Dict("b", c),
				tree.Dict("a", c, "b", tree.LeafN("L")),
				tree.List(c),
				tree.List(tree.LeafN("L"), c),
			)
		}
		cur = nx
	}
	return cur
}

func dictTop(ts []*tree.Node) []*tree.Node {
	var out []*tree.Node
	for _, n := range ts {
		if n.K == tree.Cont && !n.HasA && len(n.D) > 0 {
			out = append(out, n)
		}
	}
	return out
}

func c16Space(name string, ts []*tree.Node, paths []string, nopts int) *core.Space {
	n := len(ts)
	np := len(allPolicies)
	nf := len(fieldPolicies)
	npath := len(paths)
	radices := []int{n, n, np}
	for k := 0; k < nopts; k++ {
		radices = append(radices, npath, nf)
	}
	dec := func(i int) (tree.Policy, *tree.Node, *tree.Node, []fieldOpt) {
		d := mixedRadix(i, radices...)
		var fo []fieldOpt
		for k := 0; k < nopts; k++ {
			fo = append(fo, fieldOpt{paths[d[3+2*k]], fieldPolicies[d[4+2*k]]})
		}
		return allPolicies[d[2]], tree.Label(ts[d[0]], "A"), tree.Label(ts[d[1]], "B"), fo
	}
	optText := func(fo []fieldOpt) string {
		var s []string
		for _, f := range fo {
			s = append(s, fmt.Sprintf("%s(%q)", fieldOptName(f.Policy), f.Path))
		}
		return strings.Join(s, "+")
	}
	return &core.Space{
		Name: name,
		Size: product(radices...),
		Text: func(i int) string {
			g, a, b, fo := dec(i)
			return fmt.Sprintf("global=%s opts=%s A=%s B=%s", g, optText(fo), a, b)
		},
		Exec: func(i int) core.Result {
			g, a, b, fo := dec(i)
			if nopts == 2 && (fo[0].Path == fo[1].Path || ambiguousPair(fo[0].Path, fo[1].Path)) {
				return core.Result{Skipped: true}
			}
			if (a.HasA && len(a.D) == 0) != (b.HasA && len(b.D) == 0) {
				return core.Result{Skipped: true} // a list merged with a dict at the top: not observable through one Unpack
			}
			topList := a.HasA && len(a.D) == 0
			want := tree.MergeAt(fieldPolicyFn(g, fo, false), nil, a, b).Canon()
			want2 := tree.MergeAt(fieldPolicyFn(g, fo, true), nil, a, b).Canon()
			plain := tree.Merge(g, a, b).Canon()
			var got string
			var err error
			pi := core.Guard(func() {
				var ca *ucfg.Config
				if ca, err = ucfg.NewFrom(a.ToGo()); err != nil {
					return
				}
				opts := []ucfg.Option{ucfg.PathSep(".")}
				opts = append(opts, policyOpt[g]...)
				for _, f := range fo {
					opts = append(opts, f.option())
				}
				if err = ca.Merge(b.ToGo(), opts...); err != nil {
					return
				}
				if topList {
					var l []interface{}
					if err = ca.Unpack(&l); err == nil {
						got = tree.CanonGo(l)
					}
					return
				}
				got, err = canonOfConfig(ca)
			})
			if pi != nil {
				return apiPanic("fieldpolicy", pi)
			}
			cls := "in-subtree"
			if got != want && got == plainOrOther(plain, want, got) {
				cls = "option-ignored"
			}
			sig := fmt.Sprintf("global=%s %s", g, optSig(fo))
			if err != nil {
				return core.Fail("fieldpolicy", "ERROR "+sig, err.Error())
			}
			undef := false
			for _, f := range fo {
				undef = undef || undefinedPattern(f.Path)
			}
			if got != want && got != want2 && !undef {
				if want == plain {
					cls = "leak-outside-subtree"
				}
				return core.Fail("fieldpolicy", "MISMATCH "+cls+" "+sig, fmt.Sprintf("model=%s impl=%s global-only=%s", want, got, plain))
			}
			if want != want2 {
				return core.Result{Skipped: true, Outcome: "list-level reading differs"}
			}
			for _, f := range fo {
				if undefinedPattern(f.Path) {
					return core.Result{Skipped: true, Outcome: "multi-segment ** pattern"}
				}
			}
			return core.Result{Nontrivial: want != plain, Outcome: sig}
		},
	}
}

// c16References: the second document sets a key at or above the option's path to a whole-value
// reference to an object (VarExp): the option applies as if the object were written in place.
func c16References() *core.Space {
	type doc struct {
		name       string
		a, b, bSub M // b with the reference, bSub with the referenced object written in place
	}
	docs := []doc{
		{"a: ${tmpl}", M{"a": M{"l": L{"A0", "A1"}, "m": M{"l": L{"A2"}}}, "l": L{"A3"}}, M{"a": "${tmpl}", "tmpl": M{"l": L{"B0"}, "m": M{"l": L{"B1"}}}, "l": L{"B2"}}, M{"a": M{"l": L{"B0"}, "m": M{"l": L{"B1"}}}, "tmpl": M{"l": L{"B0"}, "m": M{"l": L{"B1"}}}, "l": L{"B2"}}},
		{"a.m: ${tmpl}", M{"a": M{"l": L{"A0"}, "m": M{"l": L{"A2", "A4"}}}}, M{"a": M{"l": L{"B3"}, "m": "${tmpl}"}, "tmpl": M{"l": L{"B1"}}}, M{"a": M{"l": L{"B3"}, "m": M{"l": L{"B1"}}}, "tmpl": M{"l": L{"B1"}}}},
	}
	paths := []string{"a", "a.l", "l", "a.m", "a.m.l", "**.l", "tmpl"}
	radices := []int{len(docs), len(allPolicies), len(paths), len(fieldPolicies)}
	return &core.Space{
		Name: "references-under-field-options",
		Size: product(radices...),
		Text: func(i int) string {
			d := mixedRadix(i, radices...)
			return fmt.Sprintf("global=%s opts=%s(%q) A=%v B=%v (VarExp)", allPolicies[d[1]], fieldOptName(fieldPolicies[d[3]]), paths[d[2]], docs[d[0]].a, docs[d[0]].b)
		},
		Exec: func(i int) core.Result {
			d := mixedRadix(i, radices...)
			dc, g, fo := docs[d[0]], allPolicies[d[1]], fieldOpt{paths[d[2]], fieldPolicies[d[3]]}
			run := func(b M) (string, error) {
				opts := []ucfg.Option{ucfg.PathSep("."), ucfg.VarExp}
				ca, err := ucfg.NewFrom(dc.a, opts...)
				if err != nil {
					return "", err
				}
				mo := append(append([]ucfg.Option{}, opts...), policyOpt[g]...)
				mo = append(mo, fo.option())
				if err := ca.Merge(b, mo...); err != nil {
					return "", err
				}
				var m map[string]interface{}
				if err := ca.Unpack(&m, opts...); err != nil {
					return "", err
				}
				return tree.CanonGo(m), nil
			}
			var res core.Result
			pi := core.Guard(func() {
				// differential oracle: the referenced object written in place gives the expected result
				want, werr := run(dc.bSub)
				got, gerr := run(dc.b)
				if werr != nil {
					res = core.Fail("refs", "ERROR in-place", werr.Error())
					return
				}
				if gerr != nil || got != want {
					res = core.Fail("refs", fmt.Sprintf("REFERENCE-CHANGES-FIELD-POLICY global=%s %s", g, optSig([]fieldOpt{fo})), fmt.Sprintf("%s: with the object written in place %s, with the reference (%s, %v)", dc.name, want, got, gerr))
					return
				}
				res.Nontrivial = true
				res.Outcome = "same"
			})
			if pi != nil {
				return apiPanic("refs", pi)
			}
			return res
		},
	}
}

// c16Reuse: Option values are reused across Merge calls in different combinations
// (first call: a+b, second call: a alone); the second call must behave like a alone.
func c16Reuse(ts []*tree.Node, paths []string) *core.Space {
	n := len(ts)
	np, nf, npath := len(allPolicies), len(fieldPolicies), len(paths)
	radices := []int{n, n, np, npath, nf, npath, nf}
	dec := func(i int) (tree.Policy, *tree.Node, *tree.Node, fieldOpt, fieldOpt) {
		d := mixedRadix(i, radices...)
		return allPolicies[d[2]], tree.Label(ts[d[0]], "A"), tree.Label(ts[d[1]], "B"), fieldOpt{paths[d[3]], fieldPolicies[d[4]]}, fieldOpt{paths[d[5]], fieldPolicies[d[6]]}
	}
	return &core.Space{
		Name: "reused-option-values",
		Size: product(radices...),
		Text: func(i int) string {
			g, a, b, f1, f2 := dec(i)
			return fmt.Sprintf("global=%s o1:=%s(%q) o2:=%s(%q); Merge(A,B,o1,o2); then fresh A=%s B=%s Merge(A,B,o1)", g, fieldOptName(f1.Policy), f1.Path, fieldOptName(f2.Policy), f2.Path, a, b)
		},
		Exec: func(i int) core.Result {
			g, a, b, f1, f2 := dec(i)
			want := tree.MergeAt(fieldPolicyFn(g, []fieldOpt{f1}, false), nil, a, b).Canon()
			want2 := tree.MergeAt(fieldPolicyFn(g, []fieldOpt{f1}, true), nil, a, b).Canon()
			var got string
			var err error
			pi := core.Guard(func() {
				o1, o2 := f1.option(), f2.option()
				base := append([]ucfg.Option{ucfg.PathSep(".")}, policyOpt[g]...)
				var ca *ucfg.Config
				if ca, err = ucfg.NewFrom(a.ToGo()); err != nil {
					return
				}
				if err = ca.Merge(b.ToGo(), append(append([]ucfg.Option{}, base...), o1, o2)...); err != nil {
					return
				}
				if ca, err = ucfg.NewFrom(a.ToGo()); err != nil {
					return
				}
				if err = ca.Merge(b.ToGo(), append(append([]ucfg.Option{}, base...), o1)...); err != nil {
					return
				}
				got, err = canonOfConfig(ca)
			})
			if pi != nil {
				return apiPanic("reuse", pi)
			}
			sig := fmt.Sprintf("reused-option global=%s %s", g, optSig([]fieldOpt{f1}))
			if err != nil {
				return core.Fail("reuse", "ERROR "+sig, err.Error())
			}
			if got != want && got != want2 {
				return core.Fail("reuse", "MISMATCH "+sig, fmt.Sprintf("second call with o1 alone: model=%s impl=%s", want, got))
			}
			return core.Result{Nontrivial: f1.Path != f2.Path, Outcome: sig}
		},
	}
}

func plainOrOther(plain, want, got string) string { return plain }

func optSig(fo []fieldOpt) string {
	var s []string
	for _, f := range fo {
		depth := len(strings.Split(f.Path, "."))
		kind := "name"
		if strings.Contains(f.Path, "*") {
			kind = "wildcard"
		} else if strings.ContainsAny(f.Path, "0123456789") {
			kind = "index"
		}
		s = append(s, fmt.Sprintf("%s@depth%d/%s", fieldOptName(f.Policy), depth, kind))
	}
	return strings.Join(s, "+")
}

func init() {
	core.Register(&core.Check{
		ID:    "C16",
		Level: "exploration",
		Rule: "every (global policy, field option(s), A, B) over bounded labelled dict trees is merged by the implementation (PathSep given first) and by the model in which the policy at a node is that of the longest option-named prefix of its path; " +
			"non-trivial = the model result differs from the result under the global policy alone (the option matters)",
		Assumptions: []string{
			"PathSep(\".\") precedes the field options (the option is rendered with the separator known at that point)",
			"trees: dict at top, depth<=2 over {a,b} with lists<=2 (no nils) plus depth-3 spines; field paths from a fixed 9-element menu incl. absent names and list indices; thorough adds nils, two options, * and ** wildcards",
			"FieldMergeValues means the default (index-wise) policy",
		},
		Spaces: func(tier string) []*core.Space {
			paths := []string{"a", "b", "a.a", "a.b", "b.a", "a.a.a", "a.0", "c", "c.a"}
			base := dictTop(noNilTrees(2, kAB, 2))
			sp := dictTop(spinesAB(2))
			reuseTrees := []*tree.Node{
				tree.Dict("a", tree.List(tree.LeafN("L"))), tree.Dict("b", tree.List(tree.LeafN("L"), tree.LeafN("L"))),
				tree.Dict("a", tree.List(tree.LeafN("L")), "b", tree.List(tree.LeafN("L"))),
				tree.Dict("a", tree.Dict("a", tree.List(tree.LeafN("L")), "b", tree.LeafN("L"))),
				tree.Dict("a", tree.Dict("b", tree.LeafN("L")), "b", tree.Dict("a", tree.List(tree.LeafN("L")))),
				tree.Dict("a", tree.Dict("a", tree.LeafN("L")), "b", tree.LeafN("L")),
			}
			if tier == "thorough" {
				withNil := dictTop(unionTrees(cachedEnum(2, kA, 2), cachedEnum(1, kAB, 2), noNilTrees(2, kAB, 2)))
				wild := []string{"*", "*.a", "*.b", "a.*", "**.a", "**.b", "**.a.a", "*.0", "**.0"}
				return []*core.Space{
					c16References(),
					c16Reuse(dictTop(unionTrees(noNilTrees(1, kAB, 2), spinesAB(1))), []string{"a", "b", "a.a", "a.b", "b.a", "a.0"}),
					c16Space("one-option", withNil, paths, 1),
					c16Space("one-option-spines", dictTop(spinesAB(3)), append(append([]string{}, paths...), "a.0.a", "a.1", "a.1.a", "a.a.0"), 1),
					c16Space("two-options", base, paths, 2),
					c16Space("wildcards", unionTrees(base, sp), append(wild, "*.*", "a.*.*", "a.*.a", "b.*.*"), 1),
					c16Space("wildcard+plain-two-options", unionTrees(reuseTrees, dictTop(spinesAB(2))), []string{"a", "b", "a.a", "b.a", "**.a", "**.b", "**.c", "*.a", "a.*.*"}, 2),
					c16IrrelevantOption(unionTrees(reuseTrees, dictTop(spinesAB(2))), []string{"a", "b", "a.a", "b.a", "a.b", "**.a", "**.b", "*.a", "a.*", "*.*"}),
					c16NumericNames(),
				}
			}
			// wildcard patterns alone and next to plain names; documents with a list at the top
			wildTrees := unionTrees(reuseTrees, dictTop(spinesAB(1)), []*tree.Node{
				tree.List(tree.Dict("a", tree.List(tree.LeafN("L")))), tree.List(tree.Dict("a", tree.List(tree.LeafN("L"))), tree.Dict("b", tree.LeafN("L"))),
				tree.Dict("a", tree.List(tree.Dict("a", tree.List(tree.LeafN("L"))), tree.Dict("a", tree.List(tree.LeafN("L"))))),
				tree.Dict("b", tree.Dict("a", tree.List(tree.LeafN("L"))), "a", tree.List(tree.LeafN("L"))),
				tree.Dict("b", tree.Dict("b", tree.Dict("a", tree.List(tree.LeafN("L")))), "a", tree.List(tree.LeafN("L"))),
			})
			// options naming list positions, on lists longer than the positions named and on lists of lists
			L_ := func() *tree.Node { return tree.LeafN("L") }
			da := func() *tree.Node { return tree.Dict("a", tree.List(L_())) }
			idxTrees := []*tree.Node{
				tree.Dict("a", tree.List(da(), da(), da(), da())),
				tree.Dict("a", tree.List(da(), tree.Dict("a", tree.List(L_()), "b", tree.List(L_())), da())),
				tree.Dict("a", tree.List(tree.List(L_(), L_()), tree.List(L_(), L_()), tree.List(L_(), L_()))),
				tree.Dict("a", tree.List(tree.List(L_()), tree.List(L_(), L_(), L_()))),
				tree.Dict("a", tree.List(L_(), L_(), L_())),
				tree.Dict("a", tree.List(tree.List(tree.List(L_()), tree.List(L_())), tree.List(tree.List(L_()), tree.List(L_())), tree.List(tree.List(L_()), tree.List(L_())))),
				tree.Dict("a", tree.List(tree.List(da(), da()), tree.List(da(), da()))),
				tree.Dict("a", tree.List(da(), tree.List(L_(), L_()), da()), "b", tree.List(L_())),
			}
			idxPaths := []string{"a.0", "a.1", "a.2", "a.1.a", "a.0.a", "a.2.b", "a.1.0", "a.0.1", "a.1.1", "a.3"}
			return []*core.Space{
				c16References(),
				c16Space("index-options-on-long-lists", idxTrees, idxPaths, 1),
				c16Space("one-option", base, paths, 1),
				c16Space("one-option-spines", sp, append(append([]string{}, paths...), "a.0.a", "a.1", "a.1.a"), 1),
				c16Reuse(reuseTrees, []string{"a", "b", "a.a", "a.b", "b.a"}),
				c16Space("wildcards-one-option", wildTrees, []string{"*", "*.*", "*.a", "a.*.*", "a.*.a", "**.a", "**.b", "**.0", "b.*"}, 1),
				c16Space("wildcard+plain-two-options", wildTrees, []string{"a", "b", "a.a", "**.a", "**.c", "*.a", "a.*.*"}, 2),
				c16IrrelevantOption(reuseTrees, []string{"a", "b", "a.a", "b.a", "**.a", "**.b", "*.a", "a.*"}),
				c16NumericNames(),
			}
		},
	})
}
