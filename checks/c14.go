package checks

import (
	"encoding/json"
	"errors"
	"fmt"
	"os"
	"path/filepath"
	"regexp"
	"strings"
	"time"

	ucfg "github.com/elastic/go-ucfg"
	"github.com/elastic/go-ucfg/yaml"

	"verif/internal/core"
)

// C14: every failure is a typed error that names the offending setting.
// Single-fault injection into a valid (configuration, target type) pair.

type c14W int

func (w c14W) Validate() error {
	if w == 13 {
		return errors.New("13 is not allowed")
	}
	return nil
}

type c14Leafs struct {
	I int8           `config:"i"`
	U uint16         `config:"u"`
	F float32        `config:"f"`
	B bool           `config:"b"`
	S string         `config:"s"`
	D time.Duration  `config:"d"`
	R *regexp.Regexp `config:"r"`
	A [2]int         `config:"a"`
	V int            `config:"v" validate:"max=10"`
	W c14W           `config:"w"`
	N uint64         `config:"n" validate:"required"`
	X c14Unp         `config:"x"`
	Y c14SU          `config:"y"`
}

// c14Unp unpacks its setting with the library itself: the error of the nested Unpack is a ucfg.Error with a
// path relative to the nested config.
type c14Unp struct{ Port int }

func (u *c14Unp) Unpack(v interface{}) error {
	c, err := ucfg.NewFrom(v)
	if err != nil {
		return err
	}
	var t struct {
		Port int `config:"port"`
	}
	if err := c.Unpack(&t); err != nil {
		return err
	}
	u.Port = t.Port
	return nil
}

type c14SU struct{ S string }

func (u *c14SU) Unpack(s string) error { u.S = s; return nil }

type c14T struct {
	Top c14Leafs            `config:"top"`
	Ptr *c14Leafs           `config:"ptr"`
	Lst []c14Leafs          `config:"lst"`
	Mp  map[string]c14Leafs `config:"mp"`
	In  c14Leafs            `config:",inline"`
	PL  []*c14Leafs         `config:"pl"`
}

func c14GoodLeafs() M {
	return M{"i": 1, "u": 2, "f": 1.5, "b": true, "s": "str", "d": "3s", "r": "a+", "a": L{1, 2}, "v": 3, "w": 4, "n": 9, "x": M{"port": 1}, "y": "text"}
}

var c14Locs = []string{"", "top.", "ptr.", "lst.0.", "lst.1.", "mp.k.", "pl.0."}

type c14Fault struct {
	Leaf string
	Kind string
	Val  interface{}
	Opt  bool // needs VarExp
	// Extra: further top-level settings; NamePath: the setting the error has to name when it is
	// not the one the fault value is stored at (a broken link further down a chain of references)
	Extra    M
	NamePath string
}

var c14Faults = []c14Fault{
	{"i", "object where a primitive is expected", M{"x": 1}, false, nil, ""},
	{"i", "unparsable string", "abc", false, nil, ""},
	{"i", "out of range", 300, false, nil, ""},
	{"u", "negative into unsigned", -1, false, nil, ""},
	{"u", "out of range", 70000, false, nil, ""},
	{"f", "unparsable string", "abc", false, nil, ""},
	{"f", "out of range", 1e300, false, nil, ""},
	{"b", "unparsable string", "maybe", false, nil, ""},
	{"s", "object where a primitive is expected", M{"x": 1}, false, nil, ""},
	{"d", "bad duration", "5 parsecs", false, nil, ""},
	{"d", "duration overflow", 9223372037, false, nil, ""},
	{"r", "bad regexp", "(", false, nil, ""},
	{"a", "wrong list length", L{1, 2, 3}, false, nil, ""},
	{"a", "wrong list length", L{1}, false, nil, ""},
	{"a", "element conversion", L{1, "x"}, false, nil, ""},
	{"v", "failed tag validator", 500, false, nil, ""},
	{"w", "failed Validate()", 13, false, nil, ""},
	{"n", "failed tag validator (required)", 0, false, nil, ""},
	{"n", "required setting absent", "ABSENT", false, nil, ""},
	{"n", "required setting inside a section that is null", "SECTION-NULL", false, nil, ""},
	{"s", "unresolvable reference", "${does.not.exist}", true, nil, ""},
	{"i", "unresolvable reference in a splice", "1${nope}", true, nil, ""},
	{"s", "cyclic reference", "SELF", true, nil, ""},
	{"x", "error of a nested Unpack returned by an Unpacker", M{"port": "http"}, false, nil, ""},
	{"y", "cyclic reference read by a StringUnpacker", "SELF", true, nil, ""},
	{"y", "unresolvable reference read by a StringUnpacker", "${does.not.exist}", true, nil, ""},
	{"a", "broken second link of a reference chain read into an array", "${zchain}", true, M{"zchain": "${does.not.exist}"}, "zchain"},
	{"a", "broken third link of a reference chain read into an array", "${zchain}", true, M{"zchain": "${zlink}", "zlink": "${does.not.exist}"}, "zlink"},
}

type c14Load int

const (
	loadPlain c14Load = iota
	loadMeta
	loadYAMLFile
	numC14Loads
)

type c14Build int

const (
	buildDirect c14Build = iota
	buildMergedHalves
	buildPrependMoved
	buildAppendMoved
	buildRemovedInFront
	buildReattached
	buildSectionMergedElsewhere
	buildDottedKeys
	numC14Builds
)

func (b c14Build) String() string {
	return [...]string{"built directly", "merged from two halves", "faulty list element moved by a prepend merge", "faulty list element moved down by a Remove in front of it", "object holding the fault taken with Child and put back with SetChild (no MetaData option)", "the section holding the fault was merged (as a live *Config) into two other configs before", "every setting written as one dotted key (objects and lists are created from the keys)"}[b]
}

// c14Flatten spells every setting as one dotted key of the top-level map.
func c14Flatten(data M) M {
	out := M{}
	var flat func(prefix string, v interface{})
	flat = func(prefix string, v interface{}) {
		join := func(s string) string {
			if prefix == "" {
				return s
			}
			return prefix + "." + s
		}
		switch x := v.(type) {
		case M:
			if len(x) == 0 {
				out[prefix] = x
				return
			}
			for k, e := range x {
				flat(join(k), e)
			}
		case L:
			if len(x) == 0 {
				out[prefix] = x
				return
			}
			for i, e := range x {
				flat(join(fmt.Sprint(i)), e)
			}
		default:
			out[prefix] = v
		}
	}
	flat("", data)
	return out
}

func c14Config(loc string, f *c14Fault, selfPath string) (M, string) {
	full := M{
		"top": c14GoodLeafs(), "ptr": c14GoodLeafs(), "lst": L{c14GoodLeafs(), c14GoodLeafs()}, "mp": M{"k": c14GoodLeafs()}, "pl": L{c14GoodLeafs()},
	}
	for k, v := range c14GoodLeafs() {
		full[k] = v
	}
	path := ""
	if f != nil {
		path = loc + f.Leaf
		val := f.Val
		if val == "SELF" {
			if selfPath == "" {
				selfPath = path
			}
			val = "${" + selfPath + "}"
		}
		// place the fault
		var obj M
		switch loc {
		case "":
			obj = full
		case "top.":
			obj = full["top"].(M)
		case "ptr.":
			obj = full["ptr"].(M)
		case "lst.0.":
			obj = full["lst"].(L)[0].(M)
		case "lst.1.":
			obj = full["lst"].(L)[1].(M)
		case "mp.k.":
			obj = full["mp"].(M)["k"].(M)
		case "pl.0.":
			obj = full["pl"].(L)[0].(M)
		}
		obj[f.Leaf] = val
		if val == "ABSENT" {
			delete(obj, f.Leaf)
		}
		if val == "SECTION-NULL" {
			// (only the struct held by value has to exist when its section is null)
			delete(obj, f.Leaf)
			full["top"] = nil
		}
		for k, v := range f.Extra {
			full[k] = v
		}
	}
	return full, path
}

var c14TmpDir string

func c14LoadCfg(data M, load c14Load, opts []ucfg.Option) (*ucfg.Config, string, error) {
	switch load {
	case loadMeta:
		c, err := ucfg.NewFrom(data, append([]ucfg.Option{ucfg.MetaData(ucfg.Meta{Source: "test.yml"})}, opts...)...)
		return c, "test.yml", err
	case loadYAMLFile:
		if c14TmpDir == "" {
			d, err := os.MkdirTemp(core.RunDir(), "c14-")
			if err != nil {
				return nil, "", err
			}
			c14TmpDir = d
		}
		b, _ := json.Marshal(data)
		name := filepath.Join(c14TmpDir, "cfg.yml")
		if err := os.WriteFile(name, b, 0644); err != nil {
			return nil, "", err
		}
		c, err := yaml.NewConfigWithFile(name, opts...)
		return c, name, err
	}
	c, err := ucfg.NewFrom(data, opts...)
	return c, "", err
}

func c14Space() *core.Space {
	nL, nF := len(c14Locs), len(c14Faults)
	radices := []int{nL, nF, int(numC14Loads), int(numC14Builds)}
	dec := func(i int) (string, c14Fault, c14Load, c14Build) {
		d := mixedRadix(i, radices...)
		return c14Locs[d[0]], c14Faults[d[1]], c14Load(d[2]), c14Build(d[3])
	}
	allPaths := func() []string {
		var ps []string
		for _, l := range c14Locs {
			for k := range c14GoodLeafs() {
				ps = append(ps, l+k)
			}
		}
		ps = append(ps, "lst.2.i", "lst.2.s", "pl.1.i")
		return ps
	}()
	return &core.Space{
		Name: "single-fault-injection",
		Size: product(radices...),
		Text: func(i int) string {
			loc, f, load, b := dec(i)
			return fmt.Sprintf("fault %q (%s) at %q; %s; %s", fmt.Sprint(f.Val), f.Kind, loc+f.Leaf, [...]string{"no metadata", "MetaData{Source}", "yaml.NewConfigWithFile"}[load], b)
		},
		Exec: func(i int) core.Result {
			loc, f, load, build := dec(i)
			isList := strings.HasPrefix(loc, "lst.") || strings.HasPrefix(loc, "pl.")
			if (build == buildPrependMoved || build == buildAppendMoved || build == buildRemovedInFront) && !isList {
				return core.Result{Skipped: true}
			}
			if f.Val == "SECTION-NULL" && (loc != "top." || build != buildDirect && build != buildMergedHalves && build != buildDottedKeys) {
				return core.Result{Skipped: true}
			}
			if build == buildReattached && loc == "" {
				if _, isM := f.Val.(M); !isM {
					if _, isL := f.Val.(L); !isL {
						return core.Result{Skipped: true}
					}
				}
			}
			var res core.Result
			pi := core.Guard(func() {
				opts := []ucfg.Option{ucfg.PathSep("."), ucfg.VarExp}
				// where the faulted setting ends up after the build (list elements may move)
				finalPath := ""
				if build == buildAppendMoved {
					seg := strings.Split(loc, ".")
					finalPath = seg[0] + "." + fmt.Sprint(int(seg[1][0]-'0')+1) + "." + f.Leaf
				}
				data, path := c14Config(loc, &f, finalPath)
				var cfg *ucfg.Config
				var src string
				var err error
				switch build {
				case buildDirect:
					cfg, src, err = c14LoadCfg(data, load, opts)
				case buildDottedKeys:
					cfg, src, err = c14LoadCfg(c14Flatten(data), load, opts)
				case buildMergedHalves:
					// first half: everything but the faulted container; second half: the rest
					h1, h2 := M{}, M{}
					top := strings.SplitN(path, ".", 2)[0]
					for k, v := range data {
						if k == top {
							h2[k] = v
						} else {
							h1[k] = v
						}
					}
					cfg, src, err = c14LoadCfg(h1, load, opts)
					if err == nil {
						var c2 *ucfg.Config
						c2, _, err = c14LoadCfg(h2, load, opts)
						if err == nil {
							err = cfg.Merge(c2, opts...)
						}
					}
				case buildRemovedInFront:
					// one more element in front, removed again after loading
					key := strings.SplitN(loc, ".", 2)[0]
					withExtra := M{}
					for k, v := range data {
						withExtra[k] = v
					}
					withExtra[key] = append(L{c14GoodLeafs()}, data[key].(L)...)
					if f.Val == "SELF" {
						// (the reference names the final position)
						withExtra, _ = c14Config(loc, &f, path)
						withExtra[key] = append(L{c14GoodLeafs()}, withExtra[key].(L)...)
					}
					cfg, src, err = c14LoadCfg(withExtra, load, opts)
					if err == nil {
						_, err = cfg.Remove(key, 0, opts...)
					}
				case buildReattached:
					cfg, src, err = c14LoadCfg(data, load, opts)
					if err == nil {
						// the deepest object or list holding the fault: the faulty value itself when it
						// is a list or an object, else the object it is a member of
						name, idx := strings.TrimSuffix(loc, "."), -1
						switch f.Val.(type) {
						case M, L:
							name = path
						}
						if n := len(name); n > 2 && name[n-2] == '.' && name[n-1] >= '0' && name[n-1] <= '9' {
							name, idx = name[:n-2], int(name[n-1]-'0')
						}
						var ch *ucfg.Config
						ch, err = cfg.Child(name, idx, opts...)
						if err == nil {
							err = cfg.SetChild(name, idx, ch, ucfg.PathSep("."))
						}
					}
				case buildSectionMergedElsewhere:
					cfg, src, err = c14LoadCfg(data, load, opts)
					if err == nil && loc != "" {
						top := strings.SplitN(loc, ".", 2)[0]
						if sec, cerr := cfg.Child(top, -1, opts...); cerr == nil {
							// merging a section somewhere else must not change what it says about itself
							other := ucfg.New()
							other.Merge(sec, opts...)
							nested := mustCfg(M{"queue": M{"mem": M{}}})
							if q, qerr := nested.Child("queue.mem", -1, ucfg.PathSep(".")); qerr == nil {
								q.Merge(sec, opts...)
							}
						}
					}
				case buildPrependMoved, buildAppendMoved:
					// the faulty element is merged into a config that already has good elements
					key := strings.SplitN(loc, ".", 2)[0]
					lst := data[key].(L)
					base := M{}
					for k, v := range data {
						base[k] = v
					}
					base[key] = L{c14GoodLeafs()}
					cfg, src, err = c14LoadCfg(base, load, opts)
					if err == nil {
						var c2 *ucfg.Config
						c2, _, err = c14LoadCfg(M{key: lst}, load, opts)
						if err == nil {
							pol := ucfg.PrependValues
							idx := strings.Split(loc, ".")[1]
							newIdx := idx // prepend: the merged elements come first, same index
							if build == buildAppendMoved {
								pol = ucfg.AppendValues
								newIdx = fmt.Sprint(int(idx[0]-'0') + 1)
							}
							err = cfg.Merge(c2, append(append([]ucfg.Option{}, opts...), pol)...)
							path = key + "." + newIdx + "." + f.Leaf
						}
					}
				}
				if f.NamePath != "" {
					path = f.NamePath
				}
				if err != nil {
					// a fault may already be reported while loading (e.g. a reference that does not parse)
					res = c14Judge(err, path, src, allPaths, f, "load")
					return
				}
				var t c14T
				uerr := cfg.Unpack(&t, opts...)
				if uerr == nil {
					res = core.Fail("unpack", "FAULT-ACCEPTED "+f.Kind, fmt.Sprintf("fault at %q was not reported", path))
					return
				}
				res = c14Judge(uerr, path, src, allPaths, f, "Unpack")
			})
			if pi != nil {
				return apiPanic("c14", pi)
			}
			return res
		},
	}
}

func c14Judge(err error, path, src string, allPaths []string, f c14Fault, entry string) core.Result {
	ue, ok := err.(ucfg.Error)
	if !ok {
		return core.Fail(entry, "NOT-A-UCFG-ERROR "+f.Kind, fmt.Sprintf("%T: %v", err, firstLine(err.Error())))
	}
	if ue.Reason() == nil || ue.Class() == nil {
		return core.Fail(entry, "NIL-REASON-OR-CLASS "+f.Kind, fmt.Sprintf("reason=%v class=%v: %s", ue.Reason(), ue.Class(), firstLine(err.Error())))
	}
	msg := firstLine(err.Error())
	if !strings.Contains(msg, "'"+path+"'") {
		// a fault inside a list value is also well named by the element's path
		if !(f.Leaf == "a" && strings.Contains(msg, "'"+path+".")) {
			return core.Fail(entry, "PATH-MISSING "+f.Kind, fmt.Sprintf("expected the message to name '%s': %s", path, msg))
		}
	}
	for _, p := range allPaths {
		if p != path && !strings.HasPrefix(path, p+".") && strings.Contains(msg, "'"+p+"'") {
			return core.Fail(entry, "NAMES-ANOTHER-SETTING "+f.Kind, fmt.Sprintf("fault at '%s', but the message names '%s': %s", path, p, msg))
		}
	}
	if f.Val == "ABSENT" || f.Val == "SECTION-NULL" {
		src = "" // no value has been loaded for an absent setting: naming a source is not demanded
	}
	if src != "" && !strings.Contains(msg, "source:'"+src+"'") {
		return core.Fail(entry, "SOURCE-MISSING "+f.Kind, fmt.Sprintf("loaded from %q, message: %s", src, msg))
	}
	return core.Result{Nontrivial: true, Outcome: f.Kind}
}

// sweep: every non-nil error of the configuration API is a ucfg.Error with reason and class.
func c14Sweep() *core.Space {
	names := []string{"", "a", "a.b", "a..b", ".", "0", "-1", "a.-1", "1025", "l.5", "l.0.x", "s.x", "n", "zz", "a.b.c.d", "r", "cyc", "big", "neg", "flt", "nan"}
	idxs := []int{-2, -1, 0, 1, 5}
	type entry struct {
		Name string
		Do   func(c *ucfg.Config, name string, idx int, opts []ucfg.Option) error
	}
	entries := []entry{
		{"Bool", func(c *ucfg.Config, n string, i int, o []ucfg.Option) error { _, err := c.Bool(n, i, o...); return err }},
		{"Int", func(c *ucfg.Config, n string, i int, o []ucfg.Option) error { _, err := c.Int(n, i, o...); return err }},
		{"Uint", func(c *ucfg.Config, n string, i int, o []ucfg.Option) error { _, err := c.Uint(n, i, o...); return err }},
		{"Float", func(c *ucfg.Config, n string, i int, o []ucfg.Option) error {
			_, err := c.Float(n, i, o...)
			return err
		}},
		{"String", func(c *ucfg.Config, n string, i int, o []ucfg.Option) error {
			_, err := c.String(n, i, o...)
			return err
		}},
		{"Child", func(c *ucfg.Config, n string, i int, o []ucfg.Option) error {
			_, err := c.Child(n, i, o...)
			return err
		}},
		{"Has", func(c *ucfg.Config, n string, i int, o []ucfg.Option) error { _, err := c.Has(n, i, o...); return err }},
		{"Remove", func(c *ucfg.Config, n string, i int, o []ucfg.Option) error {
			_, err := c.Remove(n, i, o...)
			return err
		}},
		{"CountField", func(c *ucfg.Config, n string, i int, o []ucfg.Option) error {
			_, err := c.CountField(n, o...)
			return err
		}},
		{"SetInt", func(c *ucfg.Config, n string, i int, o []ucfg.Option) error { return c.SetInt(n, i, 1, o...) }},
		{"SetString", func(c *ucfg.Config, n string, i int, o []ucfg.Option) error { return c.SetString(n, i, "v", o...) }},
		{"SetChild", func(c *ucfg.Config, n string, i int, o []ucfg.Option) error {
			return c.SetChild(n, i, mustCfg(M{"q": 1}), o...)
		}},
		{"Merge(map)", func(c *ucfg.Config, n string, i int, o []ucfg.Option) error { return c.Merge(M{n: M{"x": i}}, o...) }},
		{"Merge(unsupported value)", func(c *ucfg.Config, n string, i int, o []ucfg.Option) error {
			return c.Merge(M{"k": make(chan int)}, o...)
		}},
		{"Merge(non-string keys)", func(c *ucfg.Config, n string, i int, o []ucfg.Option) error {
			return c.Merge(map[int]int{1: i}, o...)
		}},
		{"NewFrom(primitive)", func(c *ucfg.Config, n string, i int, o []ucfg.Option) error {
			_, err := ucfg.NewFrom(i, o...)
			return err
		}},
		{"Unpack(non-pointer)", func(c *ucfg.Config, n string, i int, o []ucfg.Option) error { return c.Unpack(struct{}{}, o...) }},
		{"Unpack(nil)", func(c *ucfg.Config, n string, i int, o []ucfg.Option) error { return c.Unpack(nil, o...) }},
		{"Unpack(map[int])", func(c *ucfg.Config, n string, i int, o []ucfg.Option) error {
			m := map[int]int{}
			return c.Unpack(&m, o...)
		}},
		{"Unpack(struct)", func(c *ucfg.Config, n string, i int, o []ucfg.Option) error {
			var t struct {
				A   int
				L   [1]int
				S   int
				Cyc string
				R   string
			}
			return c.Unpack(&t, o...)
		}},
	}
	optSets := [][]ucfg.Option{nil, {ucfg.PathSep(".")}, {ucfg.PathSep("."), ucfg.VarExp}}
	const c14NumGetters = 6 // Bool .. Child: their errors are judged for the path they name
	radices := []int{len(entries), len(names), len(idxs), len(optSets)}
	return &core.Space{
		Name: "api-error-sweep",
		Size: product(radices...),
		Text: func(i int) string {
			d := mixedRadix(i, radices...)
			return fmt.Sprintf("%s(%q, %d) option set %d on {a:{b:1}, l:[1,2], s:str, n:nil, r:\"${zz}\", cyc:\"${cyc}\"}", entries[d[0]].Name, names[d[1]], idxs[d[2]], d[3])
		},
		Exec: func(i int) core.Result {
			d := mixedRadix(i, radices...)
			e := entries[d[0]]
			var res core.Result
			pi := core.Guard(func() {
				base := M{"a": M{"b": 1}, "l": L{1, 2}, "s": "str", "n": nil, "r": "${zz}", "cyc": "${cyc}", "big": uint64(1<<64 - 1), "neg": -1, "flt": 1e300, "nan": "NaN"}
				c, err := ucfg.NewFrom(base, optSets[d[3]]...)
				if err != nil {
					res = core.Fail("sweep", "BUILD", err.Error())
					return
				}
				err = e.Do(c, names[d[1]], idxs[d[2]], optSets[d[3]])
				if err == nil {
					res.Outcome = "ok"
					return
				}
				res.Outcome = "error"
				res.Nontrivial = true
				ue, ok := err.(ucfg.Error)
				if !ok {
					res = core.Fail("sweep", "NOT-A-UCFG-ERROR "+e.Name, fmt.Sprintf("%T: %v", err, firstLine(err.Error())))
					return
				}
				if ue.Reason() == nil || ue.Class() == nil {
					res = core.Fail("sweep", "NIL-REASON-OR-CLASS "+e.Name, firstLine(err.Error()))
					return
				}
				if d[0] < c14NumGetters {
					if segs, exists, ok := c14SweepPath(base, names[d[1]], idxs[d[2]], d[3] > 0); ok {
						if r, good := c14JudgeGetter(e.Name, err, segs, exists); !good {
							res = r
						} else {
							res.Outcome = "error naming the path"
						}
					}
				}
			})
			if pi != nil {
				return apiPanic("sweep", pi)
			}
			return res
		},
	}
}

func init() {
	core.Register(&core.Check{
		ID:    "C14",
		Level: "exploration",
		Rule:  "single-fault injection: a valid configuration for a target with 11 leaf kinds nested through a struct, a pointer, a list of structs, a map, an inline struct and a list of pointers; every leaf position (7 locations) x 21 fault kinds (object for primitive, unparsable, out of range, negative into unsigned, bad duration/overflow, bad regexp, wrong list length, element conversion, tag validator, required, Validate(), unresolvable reference plain and in a splice, cyclic reference) x {no metadata, MetaData{Source}, yaml.NewConfigWithFile} x {built directly, merged from two halves, faulty list element moved by prepend / shifted by append}: the error must be a ucfg.Error with reason and class, name exactly the faulted path, no other setting, and the source; plus a sweep of 20 API entry points x 21 names x 5 indices x 3 option sets requiring every error to be typed; non-trivial = an error was returned and judged; plus a required setting below sections that are absent, null or empty; reference faults met while a subtree is turned into generic data (interface{}, map, list targets); lists at the root or reached with Child merged under the four list policies (every entry reports its real position); Unpacker and StringUnpacker leaves; the six getters of the sweep are judged for the path their errors name",
		Assumptions: []string{
			"errors of third-party decoders and of package parse (plain errors by design) are outside the clause",
			"the path is matched as a quoted dotted path in the first line of the message (critical errors append a stack trace)",
		},
		Spaces: func(tier string) []*core.Space { return []*core.Space{c14Sweep(), c14Space(), c14AbsentSpace(), c14GenericSpace(), c14ListRoots()} },
	})
}
